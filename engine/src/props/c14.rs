//! C14 — Writing intermediate state to disk is transparent and faithful.
//! Part "names": injectivity of the glyph-name -> file-name mapping (pure).
//! Part "kernloc": injectivity of kerning-location -> file-name (pure).
//! (Parts that build fonts with and without --emit-ir are in c14_build.)
use crate::genome::{fnv_str, Gen};
use crate::run::{CaseReport, Ctx, Part};
use fontdrasil::coords::{NormalizedCoord, NormalizedLocation};
use fontdrasil::paths::string_to_filename;
use fontir::orchestration::WorkId as FeWorkId;
use serde_json::json;
use std::path::Path;
use write_fonts::types::Tag;

const NAME_ALPHABET: &[&str] = &["a", "b", "A", "B", "e", "E", "f", "F", "x", "Z", "0", "1", "2", "5", "9", ".", "_", "-", " ", "%", "^", "\"", "*", "+", "/", ":", "<", ">", "?", "[", "\\", "]", "|",
    "\u{1}", "\u{7f}", "é", "É", "ß", "中", "\u{1F600}", "%22", "%2E", "^1", "^0", "con", "CON", "nul", "aux", "com1", "LPT1", "clock$", ".notdef", "a.alt", "A.sc", "f_i", "uni0041"];

fn gen_name(g: &mut Gen) -> String {
    let n = 1 + g.below(7);
    (0..n).map(|_| *g.pick(NAME_ALPHABET)).collect()
}

fn mutate_name(g: &mut Gen, s: &str) -> String {
    let chars: Vec<char> = s.chars().collect();
    if chars.is_empty() { return "a".into(); }
    let i = g.below(chars.len());
    let mut out: Vec<String> = chars.iter().map(|c| c.to_string()).collect();
    match g.below(8) {
        0 => { let c = chars[i]; out[i] = if c.is_ascii_lowercase() { c.to_ascii_uppercase().to_string() } else { c.to_ascii_lowercase().to_string() }; }
        1 => { out[i] = format!("%{:02X}", chars[i] as u32); }               // the escaped spelling of the same char
        2 => { out.push(format!("^{}", ["0", "1", "2", "3", "G", "V"][g.below(6)])); } // looks like a case code
        3 => { out.insert(i, g.pick(NAME_ALPHABET).to_string()); }
        4 => { out.remove(i); }
        5 => { for o in out.iter_mut() { *o = o.to_ascii_uppercase(); } }
        6 => { for o in out.iter_mut() { *o = o.to_ascii_lowercase(); } }
        _ => { out[i] = g.pick(NAME_ALPHABET).to_string(); }
    }
    out.concat()
}

pub fn check_names(_ctx: &Ctx, genome: &[u16]) -> CaseReport {
    let mut g = Gen::new(genome);
    let mut rep = CaseReport::default();
    let a = gen_name(&mut g);
    let related = g.chance(3, 4);
    let b = if related { let mut b = mutate_name(&mut g, &a); if g.chance(1, 4) { b = mutate_name(&mut g, &b); } b } else { gen_name(&mut g) };
    if a == b || a.is_empty() || b.is_empty() { rep.discard = true; return rep; }
    for suffix in [".yml", ".glyf", ".gvar"] {
        let fa = string_to_filename(&a, suffix);
        let fb = string_to_filename(&b, suffix);
        rep.evals += 1;
        if fa == fb { rep.fail("distinct-names-same-file", format!("{a:?} and {b:?} both map to {fa:?}")); break; }
        if fa.to_ascii_lowercase() == fb.to_ascii_lowercase() {
            rep.fail("distinct-names-same-file-ignoring-ascii-case", format!("{a:?} -> {fa:?}, {b:?} -> {fb:?}")); break;
        }
        if fa.contains('/') || fa.contains('\0') || fa == "." || fa == ".." { rep.fail("file-name-not-a-plain-component", format!("{a:?} -> {fa:?}")); break; }
    }
    // the IR paths derived from it must differ too
    let d = Path::new("/b");
    let pa = fontir::paths::Paths::target_file(d, &FeWorkId::Glyph(a.as_str().into()));
    let pb = fontir::paths::Paths::target_file(d, &FeWorkId::Glyph(b.as_str().into()));
    if pa == pb { rep.fail("distinct-glyphs-same-ir-path", format!("{a:?} {b:?} -> {pa:?}")); }
    let ba = fontbe::paths::Paths::target_file(d, &fontbe::orchestration::WorkId::GlyfFragment(a.as_str().into()));
    let bb = fontbe::paths::Paths::target_file(d, &fontbe::orchestration::WorkId::GlyfFragment(b.as_str().into()));
    if ba == bb { rep.fail("distinct-glyphs-same-be-path", format!("{a:?} {b:?} -> {ba:?}")); }
    let plain = |s: &str| s.chars().all(|c| c.is_ascii_lowercase() || c.is_ascii_digit() || c == '.' || c == '_') && !s.starts_with('.');
    rep.nontrivial = !plain(&a) || !plain(&b);
    if a.eq_ignore_ascii_case(&b) { rep.class("differ-only-by-ascii-case"); }
    if related { rep.class("related-pair"); } else { rep.class("independent-pair"); }
    if a.contains('%') || b.contains('%') { rep.class("contains-percent"); }
    rep.key = fnv_str(&format!("{a}\u{0}{b}"));
    rep.sample = Some(json!({"a": a, "b": b, "file_a": string_to_filename(&a, ".yml"), "file_b": string_to_filename(&b, ".yml")}));
    rep
}

const TAGS: [&str; 3] = ["wght", "wdth", "opsz"];

pub fn check_kernloc(_ctx: &Ctx, genome: &[u16]) -> CaseReport {
    let mut g = Gen::new(genome);
    let mut rep = CaseReport::default();
    let n_axes = 1 + g.below(3);
    let coord = |g: &mut Gen| -> f64 {
        match g.below(3) { 0 => [0.0, 1.0, -1.0, 0.5, -0.5, 0.25][g.below(6)], 1 => (g.range(-16384, 16384) as f64) / 16384.0, _ => (g.range(-1000, 1000) as f64) / 1000.0 }
    };
    let a: Vec<f64> = (0..n_axes).map(|_| coord(&mut g)).collect();
    let close = g.chance(2, 3);
    let b: Vec<f64> = if close {
        // a nearby distinct location: move one axis by a small step
        let mut b = a.clone(); let i = g.below(n_axes);
        let step = [1.0 / 16384.0, 0.001, 0.003, 0.004, 0.01, 0.1][g.below(6)] * if g.chance(1, 2) { 1.0 } else { -1.0 };
        b[i] = (b[i] + step).clamp(-1.0, 1.0); b
    } else { (0..n_axes).map(|_| coord(&mut g)).collect() };
    if a == b { rep.discard = true; return rep; }
    let loc = |v: &[f64]| -> NormalizedLocation { v.iter().enumerate().map(|(i, x)| (Tag::new(TAGS[i].as_bytes().try_into().unwrap()), NormalizedCoord::new(*x))).collect() };
    let d = Path::new("/b");
    let pa = fontir::paths::Paths::target_file(d, &FeWorkId::KernInstance(loc(&a)));
    let pb = fontir::paths::Paths::target_file(d, &FeWorkId::KernInstance(loc(&b)));
    rep.evals = 1;
    if pa == pb { rep.fail("distinct-kerning-locations-same-file", format!("{a:?} and {b:?} both map to {pa:?}")); }
    let maxdiff = a.iter().zip(&b).map(|(x, y)| (x - y).abs()).fold(0.0, f64::max);
    rep.nontrivial = maxdiff < 0.05;
    rep.class(if maxdiff < 0.005 { "closer-than-0.005" } else if maxdiff < 0.05 { "closer-than-0.05" } else { "far" });
    rep.key = fnv_str(&format!("{a:?}{b:?}"));
    rep.sample = Some(json!({"a": a, "b": b, "file_a": pa.display().to_string(), "file_b": pb.display().to_string()}));
    rep
}

/// stored literal cases: {"kind":"kernloc","a":[..],"b":[..]} or {"kind":"names","a":"..","b":".."}
pub fn check_literal(_ctx: &Ctx, v: &serde_json::Value) -> CaseReport {
    let mut rep = CaseReport::default();
    let d = Path::new("/b");
    match v["kind"].as_str() {
        Some("kernloc") => {
            let f = |k: &str| -> Vec<f64> { v[k].as_array().map(|a| a.iter().filter_map(|x| x.as_f64()).collect()).unwrap_or_default() };
            let (a, b) = (f("a"), f("b"));
            let loc = |v: &[f64]| -> NormalizedLocation { v.iter().enumerate().map(|(i, x)| (Tag::new(TAGS[i].as_bytes().try_into().unwrap()), NormalizedCoord::new(*x))).collect() };
            let pa = fontir::paths::Paths::target_file(d, &FeWorkId::KernInstance(loc(&a)));
            let pb = fontir::paths::Paths::target_file(d, &FeWorkId::KernInstance(loc(&b)));
            if a != b && pa == pb { rep.fail("distinct-kerning-locations-same-file", format!("{a:?} and {b:?} both map to {pa:?}")); }
        }
        Some("names") => {
            let (a, b) = (v["a"].as_str().unwrap_or(""), v["b"].as_str().unwrap_or(""));
            if a != b && string_to_filename(a, ".yml").to_ascii_lowercase() == string_to_filename(b, ".yml").to_ascii_lowercase() {
                rep.fail("distinct-names-same-file", format!("{a:?} and {b:?} both map to {:?}", string_to_filename(a, ".yml")));
            }
        }
        Some("fixture-ir") => {
            let scratch = Scratch::new(&_ctx.work);
            compare_ir(&mut rep, &_ctx.repo.join(v["fixture"].as_str().unwrap_or("")), &BuildOpts::default(), scratch.path(), None);
        }
        _ => rep.fail("bad-literal", "unknown kind"),
    }
    rep.evals = 1;
    rep
}

pub fn parts() -> Vec<Part> {
    vec![
        Part { name: "builds", genome_len: 1500, cases_quick: 150, cases_thorough: 4000, threads: 8, max_shrink_iters: 100, check: Box::new(check_build), remote: None },
        Part { name: "names", genome_len: 40, cases_quick: 200_000, cases_thorough: 5_000_000, threads: 16, max_shrink_iters: 2000, check: Box::new(check_names), remote: None },
        Part { name: "kernloc", genome_len: 24, cases_quick: 50_000, cases_thorough: 2_000_000, threads: 16, max_shrink_iters: 2000, check: Box::new(check_kernloc), remote: None },
    ]
}

pub const RULE: &str = "builds: SynthFont (all facets, glyph names incl. case variants / reserved characters / device names) x options, built without IR and (through hook H3, which returns both contexts) with IR in a fresh directory: bytes equal, persisted font equal, every FE item (static metadata, glyph orders, global metrics, kerning locations/instances, features, glyphs, anchors) and BE glyph / gvar fragment read back == in-memory value, distinct ids never share a file; names: pairs of distinct glyph names built from an alphabet of case variants, reserved characters, '%XX' / '^N' look-alikes, device names and Unicode (3/4 related by one or two edits: case flip, escaped spelling, case-code suffix, insert/delete/replace); kernloc: pairs of distinct normalized locations on 1-3 axes, 2/3 differing by a small step (2^-14 .. 0.1) on one axis; oracle: distinct inputs map to distinct file names (also ASCII case-folded for names). non-trivial = a name outside [a-z0-9._] / locations closer than 0.05; distinct = hash of the pair";
pub const ASSUMPTIONS: &[&str] = &["case-insensitive collisions are checked for ASCII case folding only (Unicode case folding of the file system is out of scope)"];

// ---------------------------------------------------------------- builds with and without IR emission
use crate::props::c03::{classify, describe};
use crate::props::c05::gen_opts;
use crate::synth::build::{compile_path, BuildOpts, Scratch};
use crate::synth::model::{Profile, SynthFont};
use crate::synth::ufo;
use fontir::orchestration::Persistable;
use std::collections::BTreeMap;

fn profile() -> Profile {
    Profile { min_axes: 0, max_axes: 2, max_glyphs: 12, min_glyphs: 2, outlines: true, cubic: true, components: 4, transforms: true, mixed: true, sparse: 2,
        order_variety: true, non_export: true, metrics_class_a: true, vertical: true, half_coords: true, maps: true, awkward_axes: false, multi_codepoints: true, ps_names: false, anchors: true, kerning: true, instances: true, flat_maps: false, point_axis: true, weird_names: true, os2_ranges: true, ..Profile::base() }
}

fn ser<T: Persistable>(v: &T) -> Vec<u8> { let mut b = Vec::new(); v.write(&mut b); b }

fn read_back<T: Persistable + PartialEq + std::fmt::Debug>(rep: &mut CaseReport, what: &str, path: &Path, in_memory: &T) {
    match std::fs::File::open(path) {
        Err(e) => rep.fail("ir-item-not-written", format!("{what}: {} ({e})", path.display())),
        Ok(mut f) => {
            let r = std::panic::catch_unwind(std::panic::AssertUnwindSafe(|| T::read(&mut f)));
            match r {
                Err(_) => rep.fail(format!("ir-item-unreadable:{}", what.split('(').next().unwrap_or(what)), format!("{what}: {}", path.display())),
                Ok(v) => if &v != in_memory { rep.fail(format!("ir-item-reads-back-different:{}", what.split('(').next().unwrap_or(what)), format!("{what} at {}: on disk {:.300?} in memory {:.300?}", path.display(), format!("{v:?}"), format!("{in_memory:?}"))); }
            }
        }
    }
}

pub fn check_build(ctx: &Ctx, genome: &[u16]) -> CaseReport {
    let mut rep = CaseReport::default();
    let mut g = Gen::new(genome);
    let mut og = g.fork(12);
    let opts = if og.chance(1, 2) { BuildOpts::default() } else { gen_opts(&mut og) };
    let f = SynthFont::decode(&genome[12.min(genome.len())..], &profile());
    rep.key = f.hash() ^ fnv_str(&opts.label());
    classify(&mut rep, &f);
    rep.sample = Some(json!({"options": opts.label(), "font": describe(&f)}));
    let files = ufo::render(&f);
    if ctx.dry { for (k, v) in files { rep.artifacts.push((k, v.into_bytes())); } return rep; }
    let scratch = Scratch::new(&ctx.work);
    let ds = ufo::write_tree(scratch.path(), &files).expect("write tree");
    let reuse = og.chance(1, 3);
    let other = ctx.repo.join("resources/testdata/wght_var.designspace");
    if reuse { rep.class("reused-build-directory"); }
    let n_kern = compare_ir(&mut rep, &ds, &opts, scratch.path(), if reuse { Some(other.as_path()) } else { None });
    let plainname = |s: &str| s.chars().all(|c| c.is_ascii_lowercase() || c.is_ascii_digit() || c == '.' || c == '_') && !s.starts_with('.');
    rep.nontrivial = f.glyphs.iter().any(|g| !plainname(&g.name)) || n_kern >= 2;
    if n_kern >= 2 { rep.class("several-kerning-instances"); }
    if f.glyphs.iter().any(|g| g.name.chars().any(|c| "\"*?:%^".contains(c))) { rep.class("glyph-name-with-reserved-char"); }
    if !rep.failures.is_empty() { for (k, v) in &files { rep.artifacts.push((k.clone(), v.clone().into_bytes())); } }
    rep
}

/// build `ds` without and with IR emission (fresh dir under `scratch`) and compare; returns the number of kerning instances
pub fn compare_ir(rep: &mut CaseReport, ds: &Path, opts: &BuildOpts, scratch: &Path, prebuild: Option<&Path>) -> usize {
    let rep: &mut CaseReport = rep;
    let files: BTreeMap<String, String> = BTreeMap::new();
    let plain = compile_path(ds, opts);
    let ir_dir = scratch.join("ir");
    // a build directory that already holds the (larger) output of an earlier build of another source
    if let Some(other) = prebuild {
        let o = BuildOpts { ir_dir: Some(ir_dir.clone()), ..BuildOpts::default() };
        let _ = std::panic::catch_unwind(std::panic::AssertUnwindSafe(|| { if let Ok(inp) = fontc::Input::new(other) { if let Ok(src) = inp.create_source() { let _ = fontc::verif::build(src, &o.to_options()); } } }));
    }
    let with_ir = BuildOpts { ir_dir: Some(ir_dir.clone()), ..opts.clone() };
    let built = std::panic::catch_unwind(std::panic::AssertUnwindSafe(|| -> Result<_, String> {
        let input = fontc::Input::new(ds).map_err(|e| e.to_string())?;
        let source = input.create_source().map_err(|e| e.to_string())?;
        fontc::verif::build(source, &with_ir.to_options()).map_err(|e| e.to_string())
    }));
    let (fe, be) = match (plain.as_ref(), built) {
        (Ok(_), Ok(Ok(c))) => c,
        (Err(_), Ok(Err(_))) => { rep.discard = true; rep.class("source-rejected"); return 0; }
        (Ok(_), Ok(Err(e))) => { rep.fail("emit-ir-changes-the-outcome", format!("builds without IR, fails with IR: {e}")); for (k, v) in &files { rep.artifacts.push((k.clone(), v.clone().into_bytes())); } return 0; }
        (Err(e), Ok(Ok(_))) => { rep.fail("emit-ir-changes-the-outcome", format!("fails without IR ({}), builds with IR", e.text())); return 0; }
        (_, Err(_)) => { rep.fail("emit-ir-build-panics", crate::run::LAST_PANIC.with(|p| p.borrow().clone())); for (k, v) in &files { rep.artifacts.push((k.clone(), v.clone().into_bytes())); } return 0; }
    };
    let plain = plain.unwrap();
    let with = be.font.get().get().to_vec();
    rep.evals += 1;
    if with != plain { rep.fail(format!("emit-ir-changes-the-font:{}", crate::props::c01::differing_table(&plain, &with)), crate::props::c01::first_difference(&plain, &with)); }
    match std::fs::read(fontbe::paths::Paths::target_file(&ir_dir, &fontbe::orchestration::WorkId::Font)) { Ok(b) => if b != with { rep.fail("persisted-font-differs-from-returned-font", format!("{} vs {} bytes", b.len(), with.len())); }, Err(e) => rep.fail("ir-item-not-written", format!("font: {e}")) }
    // every FE item reads back equal; distinct ids have distinct files
    let mut paths: BTreeMap<std::path::PathBuf, String> = BTreeMap::new();
    let mut claim = |rep: &mut CaseReport, id: String, p: std::path::PathBuf| { if let Some(prev) = paths.insert(p.clone(), id.clone()) { rep.fail("distinct-items-same-file", format!("{prev} and {id} -> {}", p.display())); } };
    use fontir::paths::Paths as FeP;
    let fid = |id: &FeWorkId| FeP::target_file(&ir_dir, id);
    read_back(rep, "StaticMetadata", &fid(&FeWorkId::StaticMetadata), &*fe.static_metadata.get());
    read_back(rep, "GlyphOrder", &fid(&FeWorkId::GlyphOrder), &*fe.glyph_order.get());
    read_back(rep, "PreliminaryGlyphOrder", &fid(&FeWorkId::PreliminaryGlyphOrder), &*fe.preliminary_glyph_order.get());
    read_back(rep, "GlobalMetrics", &fid(&FeWorkId::GlobalMetrics), &*fe.global_metrics.get());
    if let Some(k) = fe.kerning_locations.try_get() { read_back(rep, "KerningLocations", &fid(&FeWorkId::KerningLocations), &*k); }
    if let Some(k) = fe.features.try_get() { read_back(rep, "Features", &fid(&FeWorkId::Features), &*k); }
    for (id, glyph) in fe.glyphs.all() { let p = fid(&id); claim(rep, format!("{id:?}"), p.clone()); read_back(rep, &format!("Glyph({})", glyph.name), &p, &*glyph); rep.evals += 1; }
    for (id, a) in fe.anchors.all() { let p = fid(&id); claim(rep, format!("{id:?}"), p.clone()); read_back(rep, "Anchors()", &p, &*a); rep.evals += 1; }
    for (id, k) in fe.kerning_at.all() { let p = fid(&id); claim(rep, format!("{id:?}"), p.clone()); read_back(rep, "KerningInstance()", &p, &*k); rep.evals += 1; }
    // BE fragments
    use fontbe::paths::Paths as BeP;
    for (id, gl) in be.glyphs.all() { if let fontbe::orchestration::AnyWorkId::Be(bid) = &id { let p = BeP::target_file(&ir_dir, bid); claim(rep, format!("{id:?}"), p.clone());
        match std::fs::File::open(&p) { Ok(mut fh) => { let v = fontbe::orchestration::Glyph::read(&mut fh); if ser(&v) != ser(&*gl) { rep.fail("ir-item-reads-back-different:BeGlyph", format!("{id:?}")); } } Err(e) => rep.fail("ir-item-not-written", format!("{id:?}: {e}")) } rep.evals += 1; } }
    // gvar fragments hold hash-ordered sets and have no PartialEq: there is no sound equality for them here (existence of the file is checked)
    for (id, _gv) in be.gvar_fragments.all() { if let fontbe::orchestration::AnyWorkId::Be(bid) = &id { let p = BeP::target_file(&ir_dir, bid); claim(rep, format!("{id:?}"), p.clone()); if !p.exists() { rep.fail("ir-item-not-written", format!("{id:?}")); } } }
    fe.kerning_at.all().len()
}
