pub mod c07;
