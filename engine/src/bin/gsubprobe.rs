use read_fonts::{FontRef, TableProvider};
fn main() {
    for path in std::env::args().skip(1) {
        let bytes = std::fs::read(&path).unwrap();
        let f = FontRef::new(&bytes).unwrap();
        let gsub = f.gsub().unwrap();
        let fl = gsub.feature_list().unwrap();
        let tags: Vec<String> = fl.feature_records().iter().map(|r| r.feature_tag().to_string()).collect();
        print!("{path}: features {tags:?}");
        let sl = gsub.script_list().unwrap();
        for s in sl.script_records() { let sc = s.script(sl.offset_data()).unwrap(); if let Some(Ok(d)) = sc.default_lang_sys() { print!(" script {} default-langsys features {:?}", s.script_tag(), d.feature_indices().iter().map(|i| i.get()).collect::<Vec<_>>()); } }
        if let Some(Ok(fv)) = gsub.feature_variations() {
            for rec in fv.feature_variation_records() {
                if let Some(Ok(subst)) = rec.feature_table_substitution(fv.offset_data()) {
                    let v: Vec<_> = subst.substitutions().iter().map(|s| (s.feature_index(), s.alternate_feature(subst.offset_data()).map(|f| f.lookup_list_indices().iter().map(|i| i.get()).collect::<Vec<_>>()).unwrap_or_default())).collect();
                    print!(" fv-subst {v:?}");
                }
            }
        }
        println!();
    }
}
