//! C07 — Variation model reproduces its masters exactly and builds valid regions (pure API).
use crate::genome::{fnv_str, Gen};
use crate::run::{CaseReport, Ctx, Part};
use fontdrasil::coords::{NormalizedCoord, NormalizedLocation};
use fontdrasil::variations::{RoundingBehaviour, VariationModel, VariationRegion};
use kurbo::{Point, Vec2};
use serde_json::json;
use std::collections::{HashMap, HashSet};
use write_fonts::types::Tag;

const TAGS: [&str; 4] = ["wght", "wdth", "opsz", "slnt"];
const GRID: [f64; 9] = [0.0, 1.0, -1.0, 0.5, -0.5, 0.25, -0.25, 0.75, -0.75];

pub struct Case {
    pub axes: Vec<Tag>,
    pub locs: Vec<Vec<f64>>,      // [0] is the origin
    pub valued: Vec<bool>,        // which locations define values; [0] always
    pub values: Vec<Vec<f64>>,    // per location, K values
    pub k: usize,
}

pub fn decode(genome: &[u16]) -> Case {
    let mut g = Gen::new(genome);
    let n_axes = 1 + g.below(4);
    let axes: Vec<Tag> = TAGS[..n_axes].iter().map(|t| Tag::new(t.as_bytes().try_into().unwrap())).collect();
    let n_extra = g.below(10);
    let k = 1 + g.below(3);
    let fine = g.chance(1, 3); // allow arbitrary F2Dot14 coordinates
    let mut locs: Vec<Vec<f64>> = vec![vec![0.0; n_axes]];
    for _ in 0..n_extra {
        let mut lg = g.fork(2 * 4 + 1);
        let mut l = Vec::new();
        // bias towards few non-zero axes so on-axis and corner masters are common
        let on_axis = lg.chance(1, 3);
        let which = lg.below(n_axes);
        for a in 0..n_axes {
            let sel = lg.word();
            let w = lg.word();
            let mut v = if fine && sel % 4 == 3 {
                ((w as i32 % 32769) - 16384) as f64 / 16384.0
            } else {
                GRID[(w as usize * GRID.len()) >> 16]
            };
            if on_axis && a != which { v = 0.0; }
            l.push(v);
        }
        if !locs.contains(&l) { locs.push(l); }
    }
    let mut valued = vec![true];
    let mut values = Vec::new();
    let halves = g.chance(1, 2);
    for i in 0..locs.len() {
        let mut vg = g.fork(4);
        if i > 0 { valued.push(!vg.chance(1, 5)); } else { vg.word(); }
        let vals = (0..k).map(|_| { let x = vg.signed(2000) as f64; if halves { x / 2.0 } else { x } }).collect();
        values.push(vals);
    }
    Case { axes, locs, valued, values, k }
}

fn nloc(axes: &[Tag], l: &[f64]) -> NormalizedLocation {
    axes.iter().zip(l).map(|(t, v)| (*t, NormalizedCoord::new(*v))).collect()
}

fn check_region(rep: &mut CaseReport, r: &VariationRegion) {
    for (tag, tent) in r.iter() {
        let (mn, pk, mx) = (tent.min.to_f64(), tent.peak.to_f64(), tent.max.to_f64());
        if !(mn <= pk && pk <= mx) { rep.fail("region-not-ordered", format!("{tag} {tent:?}")); }
        if mn < -1.0 || mx > 1.0 { rep.fail("region-outside-unit", format!("{tag} {tent:?}")); }
        if mn < 0.0 && mx > 0.0 { rep.fail("region-spans-zero", format!("{tag} {tent:?}")); }
    }
}

pub fn check(_ctx: &Ctx, genome: &[u16]) -> CaseReport {
    let c = decode(genome);
    let mut rep = CaseReport::default();
    let n = c.locs.len();
    let locs: Vec<NormalizedLocation> = c.locs.iter().map(|l| nloc(&c.axes, l)).collect();
    let set1: HashSet<NormalizedLocation> = locs.iter().cloned().collect();
    // a second set with a different insertion history (reverse order, fresh hash keys)
    let mut set2: HashSet<NormalizedLocation> = HashSet::new();
    for l in locs.iter().rev() { set2.insert(l.clone()); }
    let m1 = VariationModel::new(set1, c.axes.clone());
    let m2 = VariationModel::new(set2, c.axes.clone());
    if m1 != m2 { rep.fail("model-depends-on-supply-order", format!("{:?}", c.locs)); }

    let seq_f: HashMap<NormalizedLocation, Vec<f64>> = (0..n).filter(|i| c.valued[*i]).map(|i| (locs[i].clone(), c.values[i].clone())).collect();
    let mut seq_f2: HashMap<NormalizedLocation, Vec<f64>> = HashMap::new();
    for i in (0..n).rev() { if c.valued[i] { seq_f2.insert(locs[i].clone(), c.values[i].clone()); } }
    let seq_p: HashMap<NormalizedLocation, Vec<Point>> = (0..n).filter(|i| c.valued[*i]).map(|i| {
        (locs[i].clone(), c.values[i].iter().enumerate().map(|(j, v)| Point::new(*v, c.values[i][(j + 1) % c.k] * 0.5 + 3.0)).collect())
    }).collect();
    let scale = c.values.iter().flatten().fold(1.0f64, |a, v| a.max(v.abs()));

    // --- unrounded: exact reproduction
    match m1.deltas_with_rounding::<f64, f64>(&seq_f, RoundingBehaviour::None) {
        Err(e) => rep.fail("deltas-error", format!("{e}")),
        Ok(d) => {
            for (r, _) in &d { check_region(&mut rep, r); }
            for i in 0..n { if !c.valued[i] { continue; }
                let got = m1.interpolate_from_deltas(&locs[i], &d);
                for j in 0..c.k {
                    let g = got.get(j).copied().unwrap_or(0.0);
                    let bad = if i == 0 { g != c.values[0][j] } else { (g - c.values[i][j]).abs() > 1e-9 * scale };
                    if bad { rep.fail(if i == 0 { "default-not-exact" } else { "master-not-reproduced" },
                        format!("loc {:?} want {} got {}", c.locs[i], c.values[i][j], g)); }
                }
                rep.evals += 1;
            }
            if let Ok(d2) = m2.deltas_with_rounding::<f64, f64>(&seq_f2, RoundingBehaviour::None) {
                if d2 != d { rep.fail("deltas-depend-on-supply-order", format!("{:?}", c.locs)); }
            }
            // scalars in [0,1] over a grid of locations and over all master locations
            let mut probe: Vec<Vec<f64>> = c.locs.clone();
            let mut pg = Gen::new(genome);
            for _ in 0..12 { probe.push((0..c.axes.len()).map(|_| ((pg.word() as i32 % 32769) - 16384) as f64 / 16384.0).collect()); }
            for p in &probe { let pl = nloc(&c.axes, p);
                for (r, _) in &d { let s = r.scalar_at(&pl).into_inner();
                    if !(0.0..=1.0).contains(&s) { rep.fail("scalar-out-of-range", format!("{s} at {p:?} for {r:?}")); } }
            }
        }
    }
    // --- rounded: within 0.5, default exactly round(default)
    if let Ok(d) = m1.deltas::<f64, f64>(&seq_f) {
        for i in 0..n { if !c.valued[i] { continue; }
            let got = m1.interpolate_from_deltas(&locs[i], &d);
            for j in 0..c.k {
                let g = got.get(j).copied().unwrap_or(0.0);
                let want = c.values[i][j];
                if i == 0 {
                    let r = (want / 2.0).round() * 2.0; // candidate for ties-even
                    let te = if (want - want.floor() - 0.5).abs() < 1e-12 { if (want.floor() as i64) % 2 == 0 { want.floor() } else { want.ceil() } } else { want.round() };
                    let _ = r;
                    if g != te { rep.fail("rounded-default-not-exact", format!("want round({want})={te} got {g}")); }
                } else if (g - want).abs() > 0.5 + 1e-9 * scale {
                    rep.fail("rounded-master-off-by-more-than-half", format!("loc {:?} want {want} got {g}", c.locs[i]));
                }
            }
        }
    }
    // --- 2-d points
    if let Ok(d) = m1.deltas_with_rounding::<Point, Vec2>(&seq_p, RoundingBehaviour::None) {
        for i in 0..n { if !c.valued[i] { continue; }
            let got = m1.interpolate_from_deltas(&locs[i], &d);
            for (j, want) in seq_p[&locs[i]].iter().enumerate() {
                let g = got.get(j).copied().unwrap_or_default();
                if (g.x - want.x).abs() > 1e-9 * scale || (g.y - want.y).abs() > 1e-9 * scale {
                    rep.fail("point-master-not-reproduced", format!("loc {:?} want {want:?} got {g:?}", c.locs[i])); }
            }
        }
    }

    // classification
    let valued_n = c.valued.iter().filter(|v| **v).count();
    let axes_used: HashSet<usize> = c.locs.iter().flat_map(|l| l.iter().enumerate().filter(|(_, v)| **v != 0.0).map(|(a, _)| a)).collect();
    let mut same_side = false;
    for a in 0..c.axes.len() { for s in [1.0, -1.0] {
        let vals: HashSet<u64> = c.locs.iter().filter(|l| l[a] * s > 0.0).map(|l| l[a].to_bits()).collect();
        if vals.len() >= 2 { same_side = true; }
    } }
    rep.nontrivial = (n >= 3 && axes_used.len() >= 2) || same_side;
    if same_side { rep.class("intermediate-on-one-side"); }
    if valued_n < n { rep.class("sparse-values"); }
    if c.locs.iter().any(|l| l.iter().filter(|v| **v != 0.0).count() >= 2) { rep.class("off-axis-master"); }
    rep.class(format!("axes={}", c.axes.len()));
    rep.class(format!("locs={}", if n <= 2 { "1-2" } else if n <= 5 { "3-5" } else { "6-10" }));
    let mut sorted = c.locs.clone(); sorted.sort_by(|a, b| a.partial_cmp(b).unwrap());
    rep.key = fnv_str(&format!("{:?}{:?}{:?}", sorted, c.values, c.valued));
    rep.sample = Some(json!({"axes": c.axes.len(), "locations": c.locs, "valued": c.valued, "values": c.values}));
    rep
}

pub fn parts() -> Vec<Part> {
    vec![Part { name: "model", genome_len: 160, cases_quick: 200_000, cases_thorough: 5_000_000, threads: 16,
        max_shrink_iters: 4000, check: Box::new(check), remote: None }]
}

pub const RULE: &str = "genome -> 1-4 axes, origin + up to 9 distinct normalized locations (grid {0,+-.25,+-.5,+-.75,+-1} or arbitrary F2Dot14), 1-3 values per location, random subset (always incl. origin) defines values; non-trivial = (>=3 locations using >=2 axes) or (>=2 distinct coordinates on one side of one axis); distinct = hash of (sorted locations, values, valued mask)";
pub const ASSUMPTIONS: &[&str] = &["oracle is the statement itself: reproduce masters (1e-9 relative unrounded, 0.5 rounded), region/scalar validity, order independence via two HashSets with different insertion histories and hash keys"];
