//! C11 — Compiled GSUB/GPOS behave as the feature file says.
//! Differential: a reference interpreter of the *source* rules (written from the feature-file
//! specification) vs the tables fea-rs compiles, applied by the independent OpenType interpreter.
use crate::genome::{fnv_str, Gen};
use crate::ot::layout::{Layout, Pos, Tbl};
use crate::ot::Font;
use crate::run::{CaseReport, Ctx, Part};
use fea_rs::parse::SourceLoadError;
use fea_rs::{Compiler, GlyphMap};
use serde_json::json;
use std::collections::{BTreeMap, BTreeSet};
use std::fmt::Write as _;
use std::path::Path;
use std::sync::Arc;

pub const GLYPHS: &[&str] = &[".notdef", "a", "b", "c", "d", "e", "f", "g", "h", "a.alt", "b.alt", "c.alt", "d.alt", "f_i", "a_b", "m1", "m2", "m3", "m4", "x", "y", "z", "w", "n.01", "n.02", "n.03", "n.04"];
const BASES: std::ops::Range<usize> = 1..13;
const LIGS: std::ops::Range<usize> = 13..15;
const MARKS: std::ops::Range<usize> = 15..19;
const OTHERS: std::ops::Range<usize> = 19..23; // no GDEF class
type G = usize; // index into GLYPHS == glyph id

#[derive(Clone, Debug, Default, PartialEq)]
pub struct Flag { pub ignore_base: bool, pub ignore_lig: bool, pub ignore_marks: bool, pub attach_class: Option<usize>, pub filter_set: Option<usize> }
// mark attachment classes (disjoint) and filter sets (arbitrary) the programs can name
const ATTACH_CLASSES: &[(&str, &[G])] = &[("@MA", &[15, 16]), ("@MB", &[17])];
const FILTER_SETS: &[(&str, &[G])] = &[("@FS1", &[15, 17]), ("@FS2", &[16, 17, 18])];

#[derive(Clone, Debug, PartialEq)]
pub enum Rule {
    Single { from: Vec<G>, to: Vec<G> },                 // pairwise; to.len()==1 means every from glyph -> to[0]
    Multiple { from: G, to: Vec<G> },
    Alternate { from: G, alts: Vec<G> },
    Ligature { comps: Vec<G>, lig: G },
    /// contextual: marked input positions carry either a lookup reference, an inline single target, or nothing
    Chain { back: Vec<Vec<G>>, input: Vec<(Vec<G>, Action)>, ahead: Vec<Vec<G>>, ignore: bool },
    SinglePos { glyphs: Vec<G>, val: [i32; 4] },
    PairPos { first: Vec<G>, second: Vec<G>, first_is_class: bool, second_is_class: bool, xadv: i32 },
}
#[derive(Clone, Debug, PartialEq)]
pub enum Action { None, Lookup(usize), Inline(G) }

#[derive(Clone, Debug, PartialEq, Eq, Copy)]
pub enum Kind { Single, Multiple, Alternate, Ligature, ChainSub, SinglePos, PairPos }
impl Kind { fn is_gpos(self) -> bool { matches!(self, Kind::SinglePos | Kind::PairPos) } }

#[derive(Clone, Debug)]
pub struct Lookup { pub name: String, pub kind: Kind, pub flag: Flag, pub rules: Vec<Rule>,
    /// Some(feature index): not a named block but a run of rules written directly in that feature's body
    pub inline_in: Option<usize>,
    /// named block declared with useExtension
    pub ext: bool }
#[derive(Clone, Debug)]
pub struct Feature { pub tag: &'static str, pub lookups: Vec<usize> }
#[derive(Clone, Debug)]
pub struct Prog { pub langsys: Vec<(&'static str, &'static str)>, pub lookups: Vec<Lookup>, pub features: Vec<Feature>,
    /// an aalt feature naming these features (its generated lookups go in front of every other GSUB lookup; the feature itself is not applied by the check)
    pub aalt: Vec<&'static str> }

fn class_of(g: G) -> u16 { if BASES.contains(&g) { 1 } else if LIGS.contains(&g) { 2 } else if MARKS.contains(&g) { 3 } else { 0 } }

// ------------------------------------------------------------------------------- generator
fn pick_set(g: &mut Gen, pool: &[G], min: usize, max: usize) -> Vec<G> {
    let n = min + g.below(max - min + 1);
    let mut p: Vec<G> = pool.to_vec();
    let mut out = vec![];
    for _ in 0..n.min(p.len()) { let k = g.below(p.len()); out.push(p.remove(k)); }
    out.sort();
    out
}

fn gen_kind(lg: &mut Gen) -> Kind { match lg.weighted(&[4, 2, 1, 3, 5, 2, 3]) { 0 => Kind::Single, 1 => Kind::Multiple, 2 => Kind::Alternate, 3 => Kind::Ligature, 4 => Kind::ChainSub, 5 => Kind::SinglePos, _ => Kind::PairPos } }
fn gen_flag(lg: &mut Gen, favour_sets: bool) -> Flag {
    match lg.weighted(&if favour_sets { [2, 2, 1, 1, 3, 6] } else { [6, 3, 1, 1, 2, 2] }) {
        0 => Flag::default(), 1 => Flag { ignore_marks: true, ..Default::default() }, 2 => Flag { ignore_lig: true, ..Default::default() }, 3 => Flag { ignore_base: true, ..Default::default() },
        4 => Flag { attach_class: Some(lg.below(ATTACH_CLASSES.len())), ..Default::default() }, _ => Flag { filter_set: Some(lg.below(FILTER_SETS.len())), ..Default::default() } }
}

fn gen_rules(kind: Kind, lg: &mut Gen, lookups: &[Lookup]) -> Vec<Rule> {
    let letters: Vec<G> = (1..9).collect(); // a..h
    let alts: Vec<G> = (9..13).collect();
    let marks: Vec<G> = MARKS.collect();
    let all: Vec<G> = (1..GLYPHS.len()).collect();
    let n_rules = 1 + lg.below(if kind == Kind::ChainSub { 6 } else { 4 });
    let mut rules: Vec<Rule> = vec![];
    let mut used_from: BTreeSet<G> = BTreeSet::new();
    let mut used_seq: BTreeSet<Vec<G>> = BTreeSet::new();
    let mut class_firsts: Vec<Vec<G>> = vec![];
    let mut class_pairs_started = false;
    // contextual rules of one lookup tend to share their context and overlap in their inputs
    let mut last_ctx: Option<(Vec<Vec<G>>, Vec<Vec<G>>)> = None;
    let small: Vec<G> = vec![1, 2, 3, 19, 20];
    for _ in 0..n_rules {
        let mut rg = lg.fork(18);
        match kind {
            Kind::Single => {
                let form = rg.below(3);
                let from = if form == 0 { vec![*rg.pick(&all)] } else { pick_set(&mut rg, &letters, 2, 4) };
                if from.iter().any(|x| used_from.contains(x)) { continue; }
                let to = if form == 2 { (0..from.len()).map(|k| alts[(k + rg.clone().below(4)) % 4]).collect() } else { vec![*rg.pick(&all)] };
                used_from.extend(from.iter().copied());
                rules.push(Rule::Single { from, to });
            }
            Kind::Multiple => { let from = *rg.pick(&all); if !used_from.insert(from) { continue; } let n = 2 + rg.below(2); let to = (0..n).map(|_| all[rg.below(all.len())]).collect(); rules.push(Rule::Multiple { from, to }); }
            Kind::Alternate => { let from = *rg.pick(&letters); if !used_from.insert(from) { continue; } let alts_ = pick_set(&mut rg, &alts, 1, 3); rules.push(Rule::Alternate { from, alts: alts_ }); }
            Kind::Ligature => {
                let n = 2 + rg.below(2);
                let comps: Vec<G> = (0..n).map(|_| { let pool = if rg.chance(1, 6) { &marks } else { &letters }; pool[rg.below(pool.len())] }).collect();
                if !used_seq.insert(comps.clone()) { continue; }
                let lig = *rg.pick(&[13usize, 14, 9, 10]);
                rules.push(Rule::Ligature { comps, lig });
            }
            Kind::ChainSub => {
                // targets: earlier single-substitution lookups, or an inline single target
                let singles: Vec<usize> = lookups.iter().enumerate().filter(|(_, l)| l.kind == Kind::Single && l.inline_in.is_none()).map(|(i, _)| i).collect();
                let narrow = rg.chance(1, 2);
                let pool: &Vec<G> = if narrow { &small } else { &all };
                let cls = |rg: &mut Gen| -> Vec<G> { if rg.chance(1, 2) { vec![*rg.pick(pool)] } else { pick_set(rg, pool, 2, 3) } };
                let reuse = last_ctx.is_some() && rg.chance(1, 2);
                let (back, ahead) = if reuse { let c = last_ctx.clone().unwrap(); rg.word(); rg.word(); c } else { ((0..rg.below(3)).map(|_| cls(&mut rg)).collect::<Vec<_>>(), (0..rg.below(3)).map(|_| cls(&mut rg)).collect::<Vec<_>>()) };
                let n_in = 1 + rg.below(2);
                let ignore = rg.chance(1, 4);
                let mut input = vec![];
                for k in 0..n_in {
                    let c = cls(&mut rg);
                    let act = if ignore { Action::None } else if !singles.is_empty() && rg.chance(1, 3) { Action::Lookup(singles[rg.below(singles.len())]) } else if n_in == 1 { Action::Inline(*rg.pick(&alts)) } else if k == 0 && !singles.is_empty() { Action::Lookup(singles[0]) } else { Action::None };
                    input.push((c, act));
                }
                if !ignore && input.iter().all(|(_, a)| *a == Action::None) { input[0].1 = Action::Inline(alts[0]); if input.len() > 1 { input.truncate(1); } }
                // the inline form takes a single marked glyph / class
                if input.iter().any(|(_, a)| matches!(a, Action::Inline(_))) { input.truncate(1); }
                // an ignore rule may look further ahead than the rules it guards
                let ahead = if ignore && rg.chance(1, 2) { let mut a = ahead.clone(); a.push(cls(&mut rg)); a } else { ahead };
                if !ignore { last_ctx = Some((back.clone(), ahead.clone())); }
                rules.push(Rule::Chain { back, input, ahead, ignore });
            }
            Kind::SinglePos => {
                let glyphs = if rg.chance(1, 2) { vec![*rg.pick(&all)] } else { pick_set(&mut rg, &all, 2, 4) };
                if glyphs.iter().any(|x| used_from.contains(x)) { continue; }
                used_from.extend(glyphs.iter().copied());
                let val = if rg.chance(1, 2) { [0, 0, rg.signed(80) as i32 * 5, 0] } else { [rg.signed(40) as i32, rg.signed(40) as i32, rg.signed(80) as i32, 0] };
                rules.push(Rule::SinglePos { glyphs, val });
            }
            Kind::PairPos => {
                let want_class = class_pairs_started || rg.chance(1, 2);
                let xadv = { let v = rg.signed(60) as i32 * 5; if v == 0 { -15 } else { v } };
                if !want_class {
                    let (a, b) = (*rg.pick(&all), *rg.pick(&all));
                    if !used_seq.insert(vec![a, b]) { continue; }
                    rules.push(Rule::PairPos { first: vec![a], second: vec![b], first_is_class: false, second_is_class: false, xadv });
                } else {
                    // class pairs come after all glyph pairs; first classes pairwise equal or disjoint, second classes of one first class disjoint
                    class_pairs_started = true;
                    let first = if !class_firsts.is_empty() && rg.chance(1, 2) { class_firsts[rg.below(class_firsts.len())].clone() } else { pick_set(&mut rg, &letters, 2, 3) };
                    if !class_firsts.iter().all(|c| *c == first || c.iter().all(|x| !first.contains(x))) { continue; }
                    let second = pick_set(&mut rg, &all, 2, 3);
                    let clash = rules.iter().any(|r| matches!(r, Rule::PairPos { first: f2, second: s2, first_is_class: true, .. } if *f2 == first && s2.iter().any(|x| second.contains(x))));
                    // second classes across the whole lookup must be equal or disjoint as well (one class definition per subtable)
                    let clash2 = rules.iter().any(|r| matches!(r, Rule::PairPos { second: s2, first_is_class: true, .. } if *s2 != second && s2.iter().any(|x| second.contains(x))));
                    if clash || clash2 { continue; }
                    if !class_firsts.contains(&first) { class_firsts.push(first.clone()); }
                    rules.push(Rule::PairPos { first, second, first_is_class: true, second_is_class: true, xadv });
                }
            }
        }
    }
    rules
}

pub fn gen_prog(g: &mut Gen) -> Prog {
    let langsys = match g.below(3) { 0 => vec![("DFLT", "dflt")], 1 => vec![("DFLT", "dflt"), ("latn", "dflt")], _ => vec![("DFLT", "dflt"), ("latn", "dflt"), ("latn", "TRK ")] };
    let n_lookups = 2 + g.below(5);
    let mut lookups: Vec<Lookup> = vec![];
    for li in 0..n_lookups {
        let mut lg = g.fork(110);
        let kind = gen_kind(&mut lg);
        let flag = gen_flag(&mut lg, false);
        let rules = gen_rules(kind, &mut lg, &lookups);
        if rules.is_empty() { continue; }
        let ext = lg.chance(1, 4);
        lookups.push(Lookup { name: format!("L{li}"), kind, flag, rules, inline_in: None, ext });
    }
    // features: every lookup is referenced by at least one feature, GSUB and GPOS lookups by different tags
    let sub_tags = ["liga", "calt", "ss01", "ccmp"]; let pos_tags = ["kern", "cpsp", "dist"];
    let mut features: Vec<Feature> = vec![];
    for (i, l) in lookups.iter().enumerate() {
        let tag = if l.kind.is_gpos() { pos_tags[g.below(pos_tags.len())] } else { sub_tags[g.below(sub_tags.len())] };
        // a lookup that only serves as a contextual target may stay unreferenced
        let only_target = l.kind == Kind::Single && g.chance(1, 4) && lookups.iter().any(|c| c.rules.iter().any(|r| matches!(r, Rule::Chain { input, .. } if input.iter().any(|(_, a)| *a == Action::Lookup(i)))));
        if only_target { continue; }
        match features.iter_mut().find(|f| f.tag == tag) { Some(f) => f.lookups.push(i), None => features.push(Feature { tag, lookups: vec![i] }) }
    }
    // runs of rules written directly in a feature body: consecutive runs differ in their lookupflag, so each
    // run is a lookup of its own, declared after every named lookup
    for fi in 0..features.len() {
        let mut ig = g.fork(8);
        if !ig.chance(1, 2) { continue; }
        let gpos = lookups[features[fi].lookups[0]].kind.is_gpos();
        let n = 1 + ig.below(3);
        let mut prev_flag: Option<Flag> = None;
        let mut added = vec![];
        for k in 0..n {
            let mut lg = g.fork(110);
            let kind = { let c = gen_kind(&mut lg); if c.is_gpos() == gpos { c } else if gpos { if lg.chance(1, 2) { Kind::PairPos } else { Kind::SinglePos } } else { [Kind::Single, Kind::Ligature, Kind::ChainSub, Kind::Multiple][lg.below(4)] } };
            let mut flag = gen_flag(&mut lg, true);
            if Some(&flag) == prev_flag.as_ref() { flag = if flag == Flag::default() { Flag { ignore_marks: true, ..Default::default() } } else { Flag::default() }; }
            let rules = gen_rules(kind, &mut lg, &lookups);
            if rules.is_empty() { continue; }
            prev_flag = Some(flag.clone());
            lookups.push(Lookup { name: format!("inline{fi}_{k}"), kind, flag, rules, inline_in: Some(fi), ext: false });
            added.push(lookups.len() - 1);
        }
        features[fi].lookups.extend(added);
    }
    let mut aalt = vec![];
    if g.chance(1, 3) { for f in &features { if !lookups[f.lookups[0]].kind.is_gpos() && g.chance(2, 3) { aalt.push(f.tag); } } }
    Prog { langsys, lookups, features, aalt }
}

// ------------------------------------------------------------------------------- FEA text
fn gl(v: &[G]) -> String { if v.len() == 1 { GLYPHS[v[0]].to_string() } else { format!("[{}]", v.iter().map(|x| GLYPHS[*x]).collect::<Vec<_>>().join(" ")) } }
/// class literal; runs of the numbered glyphs n.01 .. n.04 are written as ranges
fn cls(v: &[G]) -> String {
    let mut parts: Vec<String> = vec![];
    let mut k = 0;
    while k < v.len() {
        let mut e = k;
        while v[k] >= 23 && e + 1 < v.len() && v[e + 1] == v[e] + 1 { e += 1; }
        if e > k { parts.push(format!("{} - {}", GLYPHS[v[k]], GLYPHS[v[e]])); } else { parts.push(GLYPHS[v[k]].to_string()); }
        k = e + 1;
    }
    format!("[{}]", parts.join(" "))
}

fn write_body(s: &mut String, p: &Prog, l: &Lookup, always_flag: bool) {
        let mut fl = vec![];
        if l.flag.ignore_base { fl.push("IgnoreBaseGlyphs".to_string()); } if l.flag.ignore_lig { fl.push("IgnoreLigatures".to_string()); } if l.flag.ignore_marks { fl.push("IgnoreMarks".to_string()); }
        if let Some(c) = l.flag.attach_class { fl.push(format!("MarkAttachmentType {}", ATTACH_CLASSES[c].0)); }
        if let Some(c) = l.flag.filter_set { fl.push(format!("UseMarkFilteringSet {}", FILTER_SETS[c].0)); }
        if !fl.is_empty() { let _ = writeln!(s, "  lookupflag {};", fl.join(" ")); } else if always_flag { let _ = writeln!(s, "  lookupflag 0;"); }
        for r in &l.rules {
            match r {
                Rule::Single { from, to } => { let _ = writeln!(s, "  sub {} by {};", gl(from), if to.len() == 1 { GLYPHS[to[0]].to_string() } else { cls(to) }); }
                Rule::Multiple { from, to } => { let _ = writeln!(s, "  sub {} by {};", GLYPHS[*from], to.iter().map(|x| GLYPHS[*x]).collect::<Vec<_>>().join(" ")); }
                Rule::Alternate { from, alts } => { let _ = writeln!(s, "  sub {} from {};", GLYPHS[*from], cls(alts)); }
                Rule::Ligature { comps, lig } => { let _ = writeln!(s, "  sub {} by {};", comps.iter().map(|x| GLYPHS[*x]).collect::<Vec<_>>().join(" "), GLYPHS[*lig]); }
                Rule::Chain { back, input, ahead, ignore } => {
                    let mut t = String::from(if *ignore { "  ignore sub" } else { "  sub" });
                    for b in back { let _ = write!(t, " {}", gl(b)); }
                    let mut inline = None;
                    for (c, a) in input { let _ = write!(t, " {}'", gl(c)); match a { Action::Lookup(i) => { let _ = write!(t, " lookup {}", p.lookups[*i].name); } Action::Inline(x) => inline = Some(*x), Action::None => {} } }
                    for a in ahead { let _ = write!(t, " {}", gl(a)); }
                    if let Some(x) = inline { let _ = write!(t, " by {}", GLYPHS[x]); }
                    let _ = writeln!(s, "{t};");
                }
                Rule::SinglePos { glyphs, val } => { let _ = writeln!(s, "  pos {} <{} {} {} {}>;", gl(glyphs), val[0], val[1], val[2], val[3]); }
                Rule::PairPos { first, second, first_is_class, second_is_class, xadv } => { let _ = writeln!(s, "  pos {} {} {};", if *first_is_class { cls(first) } else { gl(first) }, if *second_is_class { cls(second) } else { gl(second) }, xadv); }
            }
        }
}

pub fn to_fea(p: &Prog) -> String {
    let mut s = String::new();
    for (sc, la) in &p.langsys { let _ = writeln!(s, "languagesystem {sc} {};", la.trim()); }
    for (n, m) in ATTACH_CLASSES.iter().chain(FILTER_SETS) { let _ = writeln!(s, "{n} = {};", cls(m)); }
    let _ = writeln!(s, "table GDEF {{\n  GlyphClassDef {}, {}, {}, ;\n}} GDEF;", cls(&BASES.collect::<Vec<_>>()), cls(&LIGS.collect::<Vec<_>>()), cls(&MARKS.collect::<Vec<_>>()));
    for l in p.lookups.iter().filter(|l| l.inline_in.is_none()) {
        let _ = writeln!(s, "lookup {} {}{{", l.name, if l.ext { "useExtension " } else { "" });
        write_body(&mut s, p, l, false);
        let _ = writeln!(s, "}} {};", l.name);
    }
    if !p.aalt.is_empty() { let _ = writeln!(s, "feature aalt {{\n{}}} aalt;", p.aalt.iter().map(|t| format!("  feature {t};\n")).collect::<String>()); }
    for f in &p.features {
        let _ = writeln!(s, "feature {} {{", f.tag);
        for l in f.lookups.iter().filter(|l| p.lookups[**l].inline_in.is_some()) { write_body(&mut s, p, &p.lookups[*l], true); }
        for l in f.lookups.iter().filter(|l| p.lookups[**l].inline_in.is_none()) { let _ = writeln!(s, "  lookup {};", p.lookups[*l].name); }
        let _ = writeln!(s, "}} {};", f.tag);
    }
    s
}

// ------------------------------------------------------------------------------- reference interpreter
fn skip(g: G, f: &Flag) -> bool {
    let c = class_of(g);
    if c == 1 && f.ignore_base { return true; }
    if c == 2 && f.ignore_lig { return true; }
    if c == 3 {
        if f.ignore_marks { return true; }
        if let Some(s) = f.filter_set { return !FILTER_SETS[s].1.contains(&g); }
        if let Some(a) = f.attach_class { return !ATTACH_CLASSES[a].1.contains(&g); }
    }
    false
}
fn next(s: &[G], i: usize, f: &Flag) -> Option<usize> { (i + 1..s.len()).find(|j| !skip(s[*j], f)) }
fn prev(s: &[G], i: usize, f: &Flag) -> Option<usize> { (0..i).rev().find(|j| !skip(s[*j], f)) }

fn apply_single_at(l: &Lookup, s: &mut Vec<G>, i: usize) {
    if skip(s[i], &l.flag) { return; }
    for r in &l.rules { if let Rule::Single { from, to } = r { if let Some(k) = from.iter().position(|x| *x == s[i]) { s[i] = if to.len() == 1 { to[0] } else { to[k] }; return; } } }
}

fn ref_gsub(p: &Prog, l: &Lookup, s: &mut Vec<G>) {
    let f = &l.flag;
    let mut i = 0;
    while i < s.len() {
        if skip(s[i], f) { i += 1; continue; }
        let mut advanced = false;
        match l.kind {
            Kind::Single | Kind::Alternate | Kind::Multiple => {
                for r in &l.rules {
                    match r {
                        Rule::Single { from, to } => { if let Some(k) = from.iter().position(|x| *x == s[i]) { s[i] = if to.len() == 1 { to[0] } else { to[k] }; i += 1; advanced = true; break; } }
                        Rule::Alternate { from, alts } => { if *from == s[i] { s[i] = alts[0]; i += 1; advanced = true; break; } }
                        Rule::Multiple { from, to } => { if *from == s[i] { let n = to.len(); s.splice(i..i + 1, to.iter().copied()); i += n; advanced = true; break; } }
                        _ => {}
                    }
                }
            }
            Kind::Ligature => {
                // longest sequence first among the rules starting with this glyph (feature file specification, 5.d)
                let mut cands: Vec<&Rule> = l.rules.iter().filter(|r| matches!(r, Rule::Ligature { comps, .. } if comps[0] == s[i])).collect();
                cands.sort_by_key(|r| if let Rule::Ligature { comps, .. } = r { std::cmp::Reverse(comps.len()) } else { std::cmp::Reverse(0) });
                for r in cands {
                    let Rule::Ligature { comps, lig } = r else { continue };
                    let mut pos = vec![i]; let mut j = i; let mut ok = true;
                    for c in &comps[1..] { match next(s, j, f) { Some(k) if s[k] == *c => { pos.push(k); j = k; } _ => { ok = false; break; } } }
                    if !ok { continue; }
                    s[i] = *lig;
                    for k in pos[1..].iter().rev() { s.remove(*k); }
                    i += 1; advanced = true; break;
                }
            }
            Kind::ChainSub => {
                for r in &l.rules {
                    let Rule::Chain { back, input, ahead, ignore } = r else { continue };
                    if !input[0].0.contains(&s[i]) { continue; }
                    let mut pos = vec![i]; let mut j = i; let mut ok = true;
                    for (c, _) in &input[1..] { match next(s, j, f) { Some(k) if c.contains(&s[k]) => { pos.push(k); j = k; } _ => { ok = false; break; } } }
                    if !ok { continue; }
                    let mut jb = i;
                    // backtrack is written in reading order: the last item is nearest to the input
                    for c in back.iter().rev() { match prev(s, jb, f) { Some(k) if c.contains(&s[k]) => jb = k, _ => { ok = false; break; } } }
                    if !ok { continue; }
                    let mut ja = *pos.last().unwrap();
                    for c in ahead { match next(s, ja, f) { Some(k) if c.contains(&s[k]) => ja = k, _ => { ok = false; break; } } }
                    if !ok { continue; }
                    if !*ignore {
                        for (k, (_, act)) in input.iter().enumerate() {
                            match act { Action::Lookup(li) => apply_single_at(&p.lookups[*li], s, pos[k]), Action::Inline(t) => { s[pos[k]] = *t; } Action::None => {} }
                        }
                    }
                    i = pos.last().unwrap() + 1; advanced = true; break;
                }
            }
            _ => {}
        }
        if !advanced { i += 1; }
    }
}

fn ref_gpos(l: &Lookup, s: &[G], pos: &mut [Pos]) {
    let f = &l.flag;
    let mut i = 0;
    while i < s.len() {
        if skip(s[i], f) { i += 1; continue; }
        match l.kind {
            Kind::SinglePos => { for r in &l.rules { if let Rule::SinglePos { glyphs, val } = r { if glyphs.contains(&s[i]) { pos[i].x_place += val[0] as f64; pos[i].y_place += val[1] as f64; pos[i].x_adv += val[2] as f64; pos[i].y_adv += val[3] as f64; break; } } } i += 1; }
            Kind::PairPos => {
                let Some(j) = next(s, i, f) else { break };
                // specific (glyph) pairs are one subtable, class pairs another: a glyph pair wins if it lists exactly this pair;
                // otherwise the class subtable applies as soon as it covers the first glyph (class 0 on the second side gives no adjustment)
                let mut done = false;
                for r in &l.rules { if let Rule::PairPos { first, second, first_is_class: false, xadv, .. } = r { if first[0] == s[i] && second[0] == s[j] { pos[i].x_adv += *xadv as f64; done = true; break; } } }
                if !done { for r in &l.rules { if let Rule::PairPos { first, second, first_is_class: true, xadv, .. } = r { if first.contains(&s[i]) && second.contains(&s[j]) { pos[i].x_adv += *xadv as f64; break; } } } }
                i = j;
            }
            _ => { i += 1; }
        }
    }
}

pub fn reference_shape(p: &Prog, script: &str, lang: &str, input: &[G]) -> (Vec<G>, Vec<Pos>) {
    let _ = (script, lang); // tier 1: every feature is registered for every language system
    let active: BTreeSet<usize> = p.features.iter().flat_map(|f| f.lookups.iter().copied()).collect();
    let mut s = input.to_vec();
    for li in &active { let l = &p.lookups[*li]; if !l.kind.is_gpos() { ref_gsub(p, l, &mut s); } }
    let mut pos = vec![Pos::default(); s.len()];
    for li in &active { let l = &p.lookups[*li]; if l.kind.is_gpos() { ref_gpos(l, &s, &mut pos); } }
    (s, pos)
}

// ------------------------------------------------------------------------------- subject
pub fn compile(fea: &str) -> Result<Vec<u8>, String> {
    let gm: GlyphMap = GlyphMap::new(GLYPHS.iter().copied()).map_err(|e| format!("{e:?}"))?;
    let text: Arc<str> = Arc::from(fea);
    let resolver = move |p: &Path| -> Result<Arc<str>, SourceLoadError> { if p == Path::new("root.fea") { Ok(text.clone()) } else { Err(SourceLoadError::new(p.to_path_buf(), "no such in-memory file")) } };
    let r = std::panic::catch_unwind(std::panic::AssertUnwindSafe(|| Compiler::<fea_rs::compile::NopFeatureProvider, fea_rs::compile::NopVariationInfo>::new("root.fea", &gm).with_resolver(resolver).print_warnings(false).compile_binary()));
    match r { Ok(Ok(b)) => Ok(b), Ok(Err(e)) => Err(format!("{e}")), Err(_) => Err(format!("panic: {}", crate::run::LAST_PANIC.with(|p| p.borrow().clone()))) }
}

fn names(s: &[G]) -> String { s.iter().map(|x| GLYPHS.get(*x).copied().unwrap_or("?")).collect::<Vec<_>>().join(" ") }

pub fn mentioned(p: &Prog) -> Vec<G> {
    let mut m: BTreeSet<G> = BTreeSet::new();
    for l in &p.lookups { for r in &l.rules { match r {
        Rule::Single { from, to } => { m.extend(from); m.extend(to); } Rule::Multiple { from, to } => { m.insert(*from); m.extend(to); } Rule::Alternate { from, alts } => { m.insert(*from); m.extend(alts); }
        Rule::Ligature { comps, lig } => { m.extend(comps); m.insert(*lig); } Rule::Chain { back, input, ahead, .. } => { for c in back.iter().chain(ahead) { m.extend(c); } for (c, _) in input { m.extend(c); } }
        Rule::SinglePos { glyphs, .. } => m.extend(glyphs), Rule::PairPos { first, second, .. } => { m.extend(first); m.extend(second); } } } }
    m.extend(MARKS); // marks matter for every flag
    let _ = OTHERS;
    m.into_iter().collect()
}

pub fn check_prog(rep: &mut CaseReport, p: &Prog, g: &mut Gen, n_random: usize) {
    let fea = to_fea(p);
    rep.artifacts.push(("root.fea".into(), fea.clone().into_bytes()));
    let bytes = match compile(&fea) { Ok(b) => b, Err(e) => { rep.fail(if e.starts_with("panic") { "compiler-panics-on-generated-program" } else { "generated-program-rejected" }, e.chars().take(1500).collect::<String>()); return; } };
    let font = match Font::new(&bytes) { Ok(f) => f, Err(e) => { rep.fail("output-unparseable", e); return; } };
    let layout = match Layout::new(&font) { Ok(l) => l, Err(e) => { rep.fail("layout-tables-unreadable", e); return; } };
    let m = mentioned(p);
    let mut strings: Vec<Vec<G>> = vec![];
    for a in &m { strings.push(vec![*a]); for b in &m { strings.push(vec![*a, *b]); } }
    if m.len() <= 9 { for a in &m { for b in &m { for c in &m { strings.push(vec![*a, *b, *c]); } } } }
    for _ in 0..n_random { let n = 3 + g.below(6); strings.push((0..n).map(|_| m[g.below(m.len())]).collect()); }
    let mut changed = false;
    for (script, lang) in &p.langsys {
        // every feature of the program is on; the aalt feature (whose lookups only shift the others' indices) is not
        let tags: Vec<&str> = p.features.iter().map(|f| f.tag).collect();
        let sub = match layout.lookups_for(Tbl::Gsub, script, lang, &[], Some(&tags)) { Ok(l) => l, Err(e) => { rep.fail("gsub-unreadable", e); return; } };
        let posl = match layout.lookups_for(Tbl::Gpos, script, lang, &[], None) { Ok(l) => l, Err(e) => { rep.fail("gpos-unreadable", e); return; } };
        for s in &strings {
            rep.evals += 1;
            let (want_s, want_p) = reference_shape(p, script, lang, s);
            let ids: Vec<u16> = s.iter().map(|x| *x as u16).collect();
            let got_s = match if font.has(b"GSUB") { layout.gsub_apply(&sub, &ids) } else { Ok(ids.clone()) } { Ok(v) => v, Err(e) => { rep.fail("gsub-evaluation-failed", format!("{}: {e}", names(s))); return; } };
            let got_sg: Vec<G> = got_s.iter().map(|x| *x as usize).collect();
            if got_sg != want_s { rep.fail("substitution-result-differs-from-source-rules", format!("script {script} language {lang}: input [{}] -> compiled tables give [{}], the rules give [{}]", names(s), names(&got_sg), names(&want_s))); return; }
            let got_p = match if font.has(b"GPOS") { layout.gpos_apply(&posl, &got_s, &[]) } else { Ok(vec![Pos::default(); got_s.len()]) } { Ok(v) => v, Err(e) => { rep.fail("gpos-evaluation-failed", format!("{}: {e}", names(s))); return; } };
            if got_p != want_p { rep.fail("positioning-result-differs-from-source-rules", format!("script {script} language {lang}: input [{}] (after substitution [{}]): compiled tables give {:?}, the rules give {:?}", names(s), names(&want_s), got_p, want_p)); return; }
            if want_s != *s || want_p.iter().any(|p| *p != Pos::default()) { changed = true; }
        }
    }
    let kinds: BTreeSet<String> = p.lookups.iter().map(|l| format!("{:?}", l.kind)).collect();
    rep.nontrivial = kinds.len() >= 2 && changed;
    for k in kinds { rep.class(format!("has-{k}")); }
    if p.lookups.iter().any(|l| l.flag != Flag::default()) { rep.class("has-lookupflag"); }
    if p.lookups.iter().any(|l| l.inline_in.is_some()) { rep.class("has-rules-in-feature-body"); }
    if p.lookups.iter().any(|l| l.ext) { rep.class("has-useExtension-lookup"); }
    if !p.aalt.is_empty() { rep.class("has-aalt-feature"); }
    if !p.aalt.is_empty() && p.lookups.iter().any(|l| l.ext && l.kind == Kind::ChainSub) { rep.class("aalt-with-contextual-extension-lookup"); }
    if rep.failures.is_empty() { rep.artifacts.clear(); }
}

pub fn check(_ctx: &Ctx, genome: &[u16]) -> CaseReport {
    let mut rep = CaseReport::default();
    let mut g = Gen::new(genome);
    let mut pg = g.fork(700);
    let p = gen_prog(&mut pg);
    let fea = to_fea(&p);
    rep.key = fnv_str(&fea);
    rep.sample = Some(json!({"fea": fea}));
    if p.lookups.is_empty() || p.features.is_empty() { rep.discard = true; return rep; }
    check_prog(&mut rep, &p, &mut g, 600);
    rep
}

// ------------------------------------------------------------------------------- script / language statements
/// One feature block: rule groups before any statement, then script sections each with language sections.
/// A rule group is one single substitution `sub <src> by <dst>;` (inline, or a reference to a named lookup) whose
/// source glyph is unique inside the feature, so that every group's presence for a language system is observable.
#[derive(Clone, Debug)]
pub struct LsFeature { pub tag: &'static str, pub r0: Vec<usize>, pub sections: Vec<LsSection> }
#[derive(Clone, Debug)]
pub struct LsSection { pub script: Option<&'static str>, pub groups: Vec<usize>, pub langs: Vec<(&'static str, bool, Vec<usize>)> }
#[derive(Clone, Debug)]
pub struct LsProg { pub declared: Vec<(&'static str, &'static str)>, pub features: Vec<LsFeature>, /* group -> (src, dst, named lookup?) */ pub groups: Vec<(G, G, bool)> }

pub fn gen_ls(g: &mut Gen) -> LsProg {
    let declared: Vec<(&str, &str)> = match g.below(3) { 0 => vec![("DFLT", "dflt")], 1 => vec![("DFLT", "dflt"), ("latn", "dflt")], _ => vec![("DFLT", "dflt"), ("latn", "dflt"), ("latn", "TRK ")] };
    let tags = ["liga", "calt", "ss01", "ccmp"];
    let n_feat = 2 + g.below(3);
    let mut groups: Vec<(G, G, bool)> = vec![];
    let mut features = vec![];
    for fi in 0..n_feat {
        let mut fg = g.fork(40);
        let mut k = 0usize; // next source glyph inside this feature: a..h then x y z w
        let srcs: Vec<G> = (1..9).chain(19..23).collect();
        let mut new_groups = |fg: &mut Gen, n: usize, groups: &mut Vec<(G, G, bool)>| -> Vec<usize> {
            let mut v = vec![];
            for _ in 0..n { if k >= srcs.len() { break; } let dst = 9 + fg.below(4); let named = fg.chance(1, 3); groups.push((srcs[k], dst, named)); k += 1; v.push(groups.len() - 1); }
            v
        };
        // feature 0: plain rules only, so that every declared language system exists in the tables
        if fi == 0 { let n = 1 + fg.below(2); let r0 = new_groups(&mut fg, n, &mut groups); features.push(LsFeature { tag: tags[fi], r0, sections: vec![] }); continue; }
        // a language statement with no script statement before it in its block, and no rules before it
        if fg.chance(1, 4) {
            let lang = *fg.pick(&["TRK ", "DEU "]);
            let n = 1 + fg.below(2);
            let gs = new_groups(&mut fg, n, &mut groups);
            features.push(LsFeature { tag: tags[fi], r0: vec![], sections: vec![LsSection { script: None, groups: vec![], langs: vec![(lang, false, gs)] }] });
            continue;
        }
        let n0 = fg.below(3);
        let r0 = new_groups(&mut fg, n0, &mut groups);
        let mut scripts: Vec<&'static str> = vec!["latn", "grek"];
        if fg.chance(1, 2) { scripts.swap(0, 1); }
        let n_sec = 1 + fg.below(2);
        let mut sections = vec![];
        for sc in scripts.into_iter().take(n_sec) {
            let n = 1 + fg.below(2);
            let gs = new_groups(&mut fg, n, &mut groups);
            let mut langs = vec![];
            let mut pool: Vec<&'static str> = vec!["TRK ", "DEU "];
            // a declared language of this script always gets its own language statement
            let must_trk = declared.contains(&(sc, "TRK "));
            let n_lang = if must_trk { 1 + fg.below(2) } else { fg.below(3) };
            if !must_trk && fg.chance(1, 2) { pool.swap(0, 1); }
            for l in pool.into_iter().take(n_lang) { let excl = fg.chance(1, 3); let n = 1 + fg.below(2); let lg = new_groups(&mut fg, n, &mut groups); if !lg.is_empty() { langs.push((l, excl, lg)); } }
            if !gs.is_empty() { sections.push(LsSection { script: Some(sc), groups: gs, langs }); }
        }
        features.push(LsFeature { tag: tags[fi], r0, sections });
    }
    LsProg { declared, features, groups }
}

pub fn ls_to_fea(p: &LsProg) -> String {
    let mut s = String::new();
    for (sc, la) in &p.declared { let _ = writeln!(s, "languagesystem {sc} {};", la.trim()); }
    for (i, (a, b, named)) in p.groups.iter().enumerate() { if *named { let _ = writeln!(s, "lookup G{i} {{\n  sub {} by {};\n}} G{i};", GLYPHS[*a], GLYPHS[*b]); } }
    let rule = |s: &mut String, i: usize| { let (a, b, named) = p.groups[i]; if named { let _ = writeln!(s, "  lookup G{i};"); } else { let _ = writeln!(s, "  sub {} by {};", GLYPHS[a], GLYPHS[b]); } };
    for f in &p.features {
        let _ = writeln!(s, "feature {} {{", f.tag);
        for i in &f.r0 { rule(&mut s, *i); }
        for sec in &f.sections {
            if let Some(sc) = sec.script { let _ = writeln!(s, "  script {sc};"); }
            for i in &sec.groups { rule(&mut s, *i); }
            for (l, excl, gs) in &sec.langs { let _ = writeln!(s, "  language {}{};", l.trim(), if *excl { " exclude_dflt" } else { "" }); for i in gs { rule(&mut s, *i); } }
        }
        let _ = writeln!(s, "}} {};", f.tag);
    }
    s
}

/// the rule groups each feature registers for each language system (feature-file specification 4.b.i-iii):
/// rules before any script statement go to every declared language system; `script S` continues with S/dflt
/// (which keeps what it already has); `language L` starts from the current script's dflt rules so far unless
/// exclude_dflt, replacing what L had; a language statement with no script before it belongs to script DFLT
pub fn ls_reference(p: &LsProg) -> Vec<BTreeMap<(String, String), Vec<usize>>> {
    p.features.iter().map(|f| {
        let mut reg: BTreeMap<(String, String), Vec<usize>> = BTreeMap::new();
        for (sc, la) in &p.declared { if !f.r0.is_empty() { reg.insert((sc.to_string(), la.to_string()), f.r0.clone()); } }
        for sec in &f.sections {
            let script = sec.script.unwrap_or("DFLT").to_string();
            if sec.script.is_some() { reg.entry((script.clone(), "dflt".into())).or_default().extend(sec.groups.iter().copied()); }
            for (l, excl, gs) in &sec.langs {
                let mut base = if *excl { vec![] } else { reg.get(&(script.clone(), "dflt".to_string())).cloned().unwrap_or_default() };
                base.extend(gs.iter().copied());
                reg.insert((script.clone(), l.to_string()), base);
            }
        }
        reg.retain(|_, v| !v.is_empty());
        reg
    }).collect()
}

pub fn check_ls(_ctx: &Ctx, genome: &[u16]) -> CaseReport {
    let mut rep = CaseReport::default();
    let mut g = Gen::new(genome);
    let p = gen_ls(&mut g);
    let fea = ls_to_fea(&p);
    rep.key = fnv_str(&fea);
    rep.sample = Some(json!({"fea": fea}));
    rep.artifacts.push(("root.fea".into(), fea.clone().into_bytes()));
    let bytes = match compile(&fea) { Ok(b) => b, Err(e) => { rep.fail(if e.starts_with("panic") { "compiler-panics-on-generated-program" } else { "generated-program-rejected" }, e.chars().take(1500).collect::<String>()); return rep; } };
    let font = match Font::new(&bytes) { Ok(f) => f, Err(e) => { rep.fail("output-unparseable", e); return rep; } };
    let layout = match Layout::new(&font) { Ok(l) => l, Err(e) => { rep.fail("layout-tables-unreadable", e); return rep; } };
    let reg = ls_reference(&p);
    // language systems the file registers, over all features; resolution as a shaper does it
    let systems: BTreeSet<(String, String)> = reg.iter().flat_map(|r| r.keys().cloned()).collect();
    let resolve = |script: &str, lang: &str| -> Option<(String, String)> {
        let sc = if systems.iter().any(|(s, _)| s == script) { script } else { "DFLT" };
        if systems.contains(&(sc.to_string(), lang.to_string())) { Some((sc.to_string(), lang.to_string())) } else if systems.contains(&(sc.to_string(), "dflt".to_string())) { Some((sc.to_string(), "dflt".to_string())) } else { None }
    };
    for (fi, f) in p.features.iter().enumerate() {
        let mine: Vec<usize> = f.r0.iter().copied().chain(f.sections.iter().flat_map(|s| s.groups.iter().copied().chain(s.langs.iter().flat_map(|(_, _, g)| g.iter().copied())))).collect();
        for script in ["DFLT", "latn", "grek", "cyrl"] { for lang in ["dflt", "TRK ", "DEU ", "NLD "] {
            let want_groups: Vec<usize> = resolve(script, lang).and_then(|k| reg[fi].get(&k).cloned()).unwrap_or_default();
            let lk = match layout.lookups_for(Tbl::Gsub, script, lang, &[], Some(&[f.tag])) { Ok(l) => l, Err(e) => { rep.fail("gsub-unreadable", e); return rep; } };
            for gi in &mine {
                rep.evals += 1;
                let (src, dst, _) = p.groups[*gi];
                let want = if want_groups.contains(gi) { dst } else { src };
                let got = match layout.gsub_apply(&lk, &[src as u16]) { Ok(v) => v, Err(e) => { rep.fail("gsub-evaluation-failed", e); return rep; } };
                if got != vec![want as u16] {
                    rep.fail("feature-rules-registered-for-the-wrong-language-systems", format!("feature {} under script {script} language {lang}: [{}] -> compiled tables give [{}], the script / language statements give [{}]", f.tag, GLYPHS[src], names(&got.iter().map(|x| *x as usize).collect::<Vec<_>>()), GLYPHS[want]));
                    return rep;
                }
            }
        } }
    }
    rep.nontrivial = p.features.iter().any(|f| !f.sections.is_empty());
    rep.class(format!("declared-systems={}", p.declared.len()));
    if p.features.iter().any(|f| f.sections.iter().any(|s| s.script.is_none())) { rep.class("language-statement-without-script"); }
    if p.features.iter().any(|f| f.sections.iter().any(|s| s.langs.iter().any(|l| l.1))) { rep.class("exclude-dflt"); }
    if p.features.iter().any(|f| f.sections.iter().any(|s| s.script == Some("grek"))) { rep.class("undeclared-script"); }
    if p.features.iter().any(|f| f.sections.len() >= 2) { rep.class("two-script-sections"); }
    if p.groups.iter().any(|g| g.2) { rep.class("named-lookup-references"); }
    rep.artifacts.clear();
    rep
}

pub fn parts() -> Vec<Part> {
    vec![Part { name: "language-systems", genome_len: 220, cases_quick: 3000, cases_thorough: 200_000, threads: 14, max_shrink_iters: 400, check: Box::new(check_ls), remote: None },
         Part { name: "programs", genome_len: 1400, cases_quick: 4000, cases_thorough: 150_000, threads: 14, max_shrink_iters: 400, check: Box::new(check), remote: None }]
}
pub const RULE: &str = "feature files generated from a grammar over 26 glyphs with GDEF classes (bases, ligatures, marks, unclassified): 1-3 language systems, 2-6 named lookups each homogeneous in rule type and flags (GSUB single glyph / class->glyph / class->class, multiple, alternate, ligature with 2-3 components incl. marks, chaining contextual with 0-2 backtrack and lookahead items, 1-2 marked inputs, lookup references to single-substitution lookups or an inline single target, and ignore rules; glyph classes partly written as ranges; GPOS single, pair with glyph pairs before class pairs) with lookupflag IgnoreMarks / IgnoreLigatures / IgnoreBaseGlyphs / MarkAttachmentType / UseMarkFilteringSet, features made of lookup references and runs of rules in the feature body; a quarter of the named lookups declared useExtension; sometimes an aalt feature naming some of the features (its lookups are spliced in front of all others; the aalt feature itself is not applied). Input strings: all strings up to length 2 (3 when at most 9 glyphs are mentioned) over the glyphs the program mentions plus the marks, and 600 random strings of length 3-8. Reference: interpreter of the source rules (lookups in declaration order, first matching rule per position, ligatures longest first, flags via GDEF classes, contextual rules applying their nested lookups at the marked positions). Subject: fea_rs compile_binary output applied by the independent GSUB/GPOS interpreter for every registered script/language. non-trivial = at least 2 lookup types and some string changed by shaping. Part language-systems: 2-4 features over 1-3 declared language systems (DFLT dflt; latn dflt; latn TRK) whose bodies hold rule groups (one single substitution each, inline or by lookup reference, source glyph unique in the feature) before any statement, after script statements (latn, and grek which is never declared) and after language statements (TRK, DEU; with and without exclude_dflt), plus features that start with a language statement and have no script statement; reference = registration model of the specification (4.b.i-iii); every feature is queried alone under 4 scripts x 4 languages (declared, mentioned and never mentioned ones, resolved as a shaper does: unknown script -> DFLT, unknown language -> the script's default) and each group's source glyph must be substituted exactly when the model registers the group for the resolved system";
pub const ASSUMPTIONS: &[&str] = &["inside a lookup single / multiple / alternate targets and ligature sequences are unique, class pairs come after glyph pairs, first classes are pairwise equal or disjoint and second classes equal or disjoint, so the source semantics do not depend on subtable layout", "part programs: every feature is registered for every declared language system (script / language statements are the subject of part language-systems)", "part language-systems: a language declared by languagesystem always gets a language statement in a feature that has a script statement for its script, and a feature starting with a language statement has no rules before it (the two points where fontTools and the specification text can be read differently)", "the aalt feature is generated but never applied: which alternates it collects is not modelled", "alternate substitution is compared through its first alternate", "nested lookups of contextual rules are single substitutions (length preserving)"];

/// stored regression cases: feature text + input strings + the result the source rules give (names, x advances)
pub fn check_literal(_ctx: &Ctx, v: &serde_json::Value) -> CaseReport {
    let mut rep = CaseReport::default();
    let fea = v["fea"].as_str().unwrap_or("");
    let bytes = match compile(fea) { Ok(b) => b, Err(e) => { rep.fail("generated-program-rejected", e); return rep; } };
    let font = match Font::new(&bytes) { Ok(f) => f, Err(e) => { rep.fail("output-unparseable", e); return rep; } };
    let layout = match Layout::new(&font) { Ok(l) => l, Err(e) => { rep.fail("layout-tables-unreadable", e); return rep; } };
    let gid = |n: &str| GLYPHS.iter().position(|g| *g == n).unwrap_or(0) as u16;
    for c in v["cases"].as_array().cloned().unwrap_or_default() {
        let (script, lang) = (c["script"].as_str().unwrap_or("DFLT"), c["lang"].as_str().unwrap_or("dflt"));
        let input: Vec<u16> = c["input"].as_array().map(|a| a.iter().map(|x| gid(x.as_str().unwrap_or(""))).collect()).unwrap_or_default();
        let want: Vec<u16> = c["want"].as_array().map(|a| a.iter().map(|x| gid(x.as_str().unwrap_or(""))).collect()).unwrap_or_default();
        let sub = layout.lookups_for(Tbl::Gsub, script, lang, &[], None).unwrap_or_default();
        let posl = layout.lookups_for(Tbl::Gpos, script, lang, &[], None).unwrap_or_default();
        rep.evals += 1;
        let got = if font.has(b"GSUB") { layout.gsub_apply(&sub, &input).unwrap_or_default() } else { input.clone() };
        if got != want { rep.fail("substitution-result-differs-from-source-rules", format!("input {:?}: compiled tables give [{}], the rules give [{}]", c["input"], names(&got.iter().map(|x| *x as usize).collect::<Vec<_>>()), names(&want.iter().map(|x| *x as usize).collect::<Vec<_>>()))); continue; }
        if let Some(wx) = c["want_xadv"].as_array() {
            let gp = if font.has(b"GPOS") { layout.gpos_apply(&posl, &got, &[]).unwrap_or_default() } else { vec![Pos::default(); got.len()] };
            let gx: Vec<f64> = gp.iter().map(|p| p.x_adv).collect();
            let wx: Vec<f64> = wx.iter().map(|x| x.as_f64().unwrap_or(0.0)).collect();
            if gx != wx { rep.fail("positioning-result-differs-from-source-rules", format!("input {:?}: x advances {gx:?}, the rules give {wx:?}", c["input"])); }
        }
    }
    rep.nontrivial = true;
    rep
}
