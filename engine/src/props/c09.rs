//! C09 — Kerning in the font equals the source kerning at every master.
use crate::ot::layout::{Layout, Tbl};
use crate::ot::outline::ot_round;
use crate::ot::Font;
use crate::props::c03::{attach_source, build, classify, describe, gid_map};
use crate::run::{CaseReport, Ctx, Part};
use crate::synth::build::BuildOpts;
use crate::synth::model::*;
use serde_json::json;

pub fn profile() -> Profile {
    Profile { min_axes: 1, max_axes: 3, min_glyphs: 3, max_glyphs: 10, kerning: true, latin_only: true, non_export: true, half_coords: true, order_variety: false, ..Profile::base() }
}

pub fn describe_kerning(f: &SynthFont) -> serde_json::Value {
    json!(f.sources.iter().enumerate().filter_map(|(i, s)| s.kerning.as_ref().map(|k| json!({"source": i, "norm": s.norm, "groups": k.groups, "pairs": k.pairs.iter().map(|((a, b), v)| json!([a, b, v])).collect::<Vec<_>>()}))).collect::<Vec<_>>())
}

/// kerning masters: the masters whose kerning.plist is not empty (fontc keeps the default master as
/// a kerning location even without kerning; the statement does not constrain the value there)
pub fn kerning_masters(f: &SynthFont) -> Vec<usize> {
    f.full_sources().filter(|(_, s)| s.kerning.as_ref().map(|k| !k.pairs.is_empty()).unwrap_or(false)).map(|(i, _)| i).collect()
}

pub fn check_kerning(rep: &mut CaseReport, f: &SynthFont, bytes: &[u8]) {
    let font = match Font::new(bytes) { Ok(x) => x, Err(e) => { rep.fail("output-unparseable", e); return; } };
    let gids = match gid_map(&font) { Ok(m) => m, Err(e) => { rep.fail("post-names-unreadable", e); return; } };
    let masters = kerning_masters(f);
    if masters.is_empty() { rep.class("no-kerning-master"); return; }
    let any_nonzero = masters.iter().any(|si| f.sources[*si].kerning.as_ref().unwrap().pairs.iter().any(|((a, b), v)| *v != 0.0 && [a, b].iter().all(|n| n.starts_with("public.kern") || f.glyph(n).map(|g| g.export).unwrap_or(false))));
    let layout = match Layout::new(&font) { Ok(l) => l, Err(e) => { rep.fail("layout-tables-unreadable", e); return; } };
    if !font.has(b"GPOS") {
        if any_nonzero {
            // still compare: every expected value must then be 0
            rep.class("no-gpos");
        } else { return; }
    }
    let names: Vec<&Glyph> = f.glyphs.iter().filter(|g| g.export && g.name != ".notdef").collect();
    let mut partitions = std::collections::BTreeSet::new();
    for si in &masters { partitions.insert(format!("{:?}", f.sources[*si].kerning.as_ref().unwrap().groups)); }
    let mut single_master_pair = false;
    if masters.len() >= 2 { for si in &masters { for key in f.sources[*si].kerning.as_ref().unwrap().pairs.keys() { if masters.iter().filter(|sj| f.sources[**sj].kerning.as_ref().unwrap().pairs.contains_key(key)).count() == 1 { single_master_pair = true; } } } }
    rep.nontrivial = masters.len() >= 2 && (partitions.len() >= 2 || single_master_pair);
    if partitions.len() >= 2 { rep.class("divergent-groups"); }
    if single_master_pair { rep.class("pair-in-one-master-only"); }
    if f.sources[0].kerning.is_none() { rep.class("default-master-without-kerning"); }
    rep.class(format!("kerning-masters={}", masters.len().min(5)));
    // regions of the kerning variation model: one per non-default kerning location (the default master is always a location)
    let n_regions = masters.iter().filter(|si| **si != 0).count();
    for script in ["DFLT", "latn"] {
        for si in &masters {
            let k = f.sources[*si].kerning.as_ref().unwrap();
            let coords = f.font_coords(&f.sources[*si].norm);
            let lookups = if font.has(b"GPOS") { match layout.lookups_for(Tbl::Gpos, script, "dflt", &coords, Some(&["kern"])) { Ok(l) => l, Err(e) => { rep.fail("gpos-unreadable", e); return; } } } else { vec![] };
            for a in &names { for b in &names {
                let (Some(&ga), Some(&gb)) = (gids.get(&a.name), gids.get(&b.name)) else { continue };
                let want = ot_round(ufo_kern_lookup(k, &a.name, &b.name));
                rep.evals += 1;
                layout.reset_bounds();
                let pos = match layout.gpos_apply(&lookups, &[ga, gb], &coords) { Ok(p) => p, Err(e) => { rep.fail("gpos-evaluation-failed", format!("{} {}: {e}", a.name, b.name)); return; } };
                let got = pos[0].x_adv;
                let tol = if *si == 0 { 0.0 } else { layout.rounding_bound(n_regions) } + 1e-6;
                if (got - want).abs() > tol {
                    rep.fail(if *si == 0 { "kern-value-differs-at-default-master" } else { "kern-value-differs-at-master" },
                        format!("pair ({}, {}) at master {si} {:?} script {script}: font applies {got:.3}, source kerning says {want} (tolerance {tol:.3}); master kerning: groups {:?} pairs {:?}", a.name, b.name, coords, k.groups, k.pairs));
                    return;
                }
                let other = pos[0].x_place.abs() + pos[0].y_place.abs() + pos[0].y_adv.abs() + pos[1].x_place.abs() + pos[1].y_place.abs() + pos[1].x_adv.abs() + pos[1].y_adv.abs();
                if other > 1e-6 { rep.fail("kern-adjusts-something-other-than-first-advance", format!("pair ({}, {}) at master {si}: {pos:?}", a.name, b.name)); return; }
            } }
        }
    }
}

pub fn check(ctx: &Ctx, genome: &[u16]) -> CaseReport {
    let mut rep = CaseReport::default();
    let f = SynthFont::decode(genome, &profile());
    rep.key = f.hash();
    classify(&mut rep, &f);
    rep.sample = Some(json!({"font": describe(&f), "kerning": describe_kerning(&f)}));
    if ctx.dry { for (k, v) in crate::synth::ufo::render(&f) { rep.artifacts.push((k, v.into_bytes())); } return rep; }
    let Some(b) = build(ctx, &mut rep, f, &BuildOpts::default()) else { return rep };
    check_kerning(&mut rep, &b.font, &b.bytes);
    attach_source(&mut rep, &b);
    rep
}

pub fn check_dense(ctx: &Ctx, genome: &[u16]) -> CaseReport {
    let mut rep = CaseReport::default();
    let f = SynthFont::decode(genome, &Profile { min_glyphs: 23, max_glyphs: 27, max_axes: 1, ..profile() });
    rep.key = f.hash();
    classify(&mut rep, &f);
    let n_adj = f.sources.iter().filter_map(|s| s.kerning.as_ref()).map(|k| k.pairs.len()).max().unwrap_or(0);
    rep.class(if n_adj > 256 { "more-than-256-pairs-in-a-master" } else { "at-most-256-pairs" });
    rep.sample = Some(json!({"glyphs": f.glyphs.len(), "max_pairs_in_a_master": n_adj, "kerning_masters": kerning_masters(&f)}));
    if ctx.dry { for (k, v) in crate::synth::ufo::render(&f) { rep.artifacts.push((k, v.into_bytes())); } return rep; }
    let Some(b) = build(ctx, &mut rep, f, &BuildOpts::default()) else { return rep };
    check_kerning(&mut rep, &b.font, &b.bytes);
    rep.nontrivial = n_adj > 256;
    attach_source(&mut rep, &b);
    rep
}

pub fn parts() -> Vec<Part> {
    vec![
        Part { name: "kerning", genome_len: 2200, cases_quick: 1500, cases_thorough: 20000, threads: 12, max_shrink_iters: 300, check: Box::new(check), remote: None },
        // many glyphs, every ordered pair kerned: several hundred adjustments per master
        Part { name: "dense", genome_len: 4200, cases_quick: 40, cases_thorough: 600, threads: 12, max_shrink_iters: 80, check: Box::new(check_dense), remote: None },
    ]
}
pub const RULE: &str = "genome -> SynthFont with 1-3 axes, 3-10 Latin / common-script glyphs (some non-export), per full master an optional kerning.plist + groups.plist: a base partition into up to 3 kern1 and 3 kern2 groups perturbed per master (glyph moved / ungrouped / newly grouped, group names optionally renamed per master), 1-9 base pairs of all four kinds with per-master jitter, pairs dropped per master, zero and .5 values, masters without kerning (including the default); a second part with 17-24 glyphs and every ordered glyph pair kerned (several hundred adjustments per master). For every kerning master x every ordered pair of exported glyphs x {DFLT, latn}: sum over the kern feature's lookups (own PairPos format 1/2 interpreter, first matching subtable per lookup, class-0 shadowing, GDEF variation deltas) vs the UFO lookup algorithm on that master's own kerning/groups, OpenType-rounded. non-trivial = >= 2 kerning masters with different group partitions or a pair present in exactly one kerning master";
pub const ASSUMPTIONS: &[&str] = &["one script (Latin + common), left to right, no mark glyphs among the kerned glyphs: fontc's script / direction / mark splitting then moves no pair out of the kern feature", "tolerance at a non-default master: 0.5 x (sum of active region scalars + number of model regions optimised out of the store because their delta rounded to 0): each delta is rounded once; exact at the default master", "masters with an empty kerning.plist are not kerning masters (fontc interpolates across them; the statement quantifies over masters that define kerning)"];
