//! libFuzzer target for C13: the feature-file front end is total and lossless.
//! Oracle inside the target: parsing and validation return (a panic is a crash, except the three
//! recorded validation panics of known_findings.json, which are tolerated so that the campaign is not
//! stopped by them); the parse tree carries exactly the input text; every diagnostic lies inside the
//! source on character boundaries and can be formatted.
#![no_main]
use libfuzzer_sys::fuzz_target;
use std::cell::RefCell;
use std::path::{Path, PathBuf};
use std::sync::{Arc, Once};

thread_local! { static LAST: RefCell<(String, String)> = const { RefCell::new((String::new(), String::new())) }; }
static HOOK: Once = Once::new();

fn known_panic(msg: &str, file: &str, text: &str) -> bool {
    // C13 known findings: CID / number literals beyond 16 bits pass the parser and panic in validation;
    // a glyph range written outside a class does the same
    msg.contains("cid is already validated") || msg.contains("already validated")
        || (file.ends_with("token_tree/typed.rs") && msg.contains("called `Option::unwrap()`") && text.contains('-'))
}

fuzz_target!(|data: &[u8]| {
    // replace the abort-on-panic hook libfuzzer-sys installs: remember the panic, decide below
    HOOK.call_once(|| std::panic::set_hook(Box::new(|info| {
        let msg = info.payload().downcast_ref::<&str>().map(|s| s.to_string()).or_else(|| info.payload().downcast_ref::<String>().cloned()).unwrap_or_default();
        let file = info.location().map(|l| l.file().to_string()).unwrap_or_default();
        LAST.with(|l| *l.borrow_mut() = (msg, file));
    })));
    let Ok(text) = std::str::from_utf8(data) else { return };
    if text.len() > 1 << 16 { return; }
    // include statements would need a file system; they are C13's include-graph class in the proptest tier
    if text.contains("include") { return; }
    let shared: Arc<str> = Arc::from(text);
    let run = std::panic::catch_unwind(std::panic::AssertUnwindSafe(|| {
        let t2 = shared.clone();
        let resolver = move |p: &Path| -> Result<Arc<str>, fea_rs::parse::SourceLoadError> {
            if p == Path::new("root.fea") { Ok(t2.clone()) } else { Err(fea_rs::parse::SourceLoadError::new(p.to_path_buf(), "no such file")) }
        };
        let glyphs = fea_rs::GlyphMap::new([".notdef", "a", "b", "c", "d", "e", "f", "g", "h", "i", "A", "B", "C", "x", "y", "z", "f_i", "acutecomb", "a.alt", "one", "two"].into_iter()).unwrap();
        let Ok((tree, diags)) = fea_rs::parse::parse_root(PathBuf::from("root.fea"), Some(&glyphs), Box::new(resolver)) else { return Ok(()) };
        let mut out = String::with_capacity(text.len());
        for t in tree.root().iter_tokens() { out.push_str(t.text.as_str()); }
        if out != text { return Err("parse tree text differs from the input".to_string()); }
        let check = |set: &fea_rs::DiagnosticSet| -> Result<(), String> {
            for d in set.diagnostics() {
                let span = d.span();
                if !(span.start <= span.end && span.end <= text.len()) { return Err(format!("diagnostic span {span:?} outside the source (len {})", text.len())); }
                if !(text.is_char_boundary(span.start) && text.is_char_boundary(span.end)) { return Err(format!("diagnostic span {span:?} splits a character")); }
            }
            let _ = set.display().to_string();
            Ok(())
        };
        check(&diags)?;
        if !diags.has_errors() {
            let v = fea_rs::compile::validate(&tree, &glyphs, None::<&fea_rs::compile::NopVariationInfo>);
            check(&v)?;
        }
        Ok(())
    }));
    match run {
        Ok(Ok(())) => {}
        Ok(Err(why)) => { eprintln!("ORACLE FAILURE: {why}"); std::process::abort(); }
        Err(_) => {
            let (msg, file) = LAST.with(|l| l.borrow().clone());
            if known_panic(&msg, &file, text) { return; }
            eprintln!("PANIC: {msg} @ {file}"); std::process::abort();
        }
    }
});
