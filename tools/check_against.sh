#!/bin/bash
# tools/check_against.sh <repo-root> <Cxx> [quick|thorough]  — run a check against another source tree
# (pristine worktree or mutant); new replays/evidence go to target/alt-out/<tag>, not into /verif.
set -u
ROOT="$1"; ID="$2"; MODE="${3:-quick}"
HERE="$(cd "$(dirname "$0")/.." && pwd)"
TAG="$(basename "$ROOT")"
export VF_OUT="$HERE/target/alt-out/$TAG"
mkdir -p "$VF_OUT"
VF_REPO_ROOT="$ROOT" "$HERE/check" "$ID" "$MODE"
rc=$?
# restore the default manifest so the next plain ./check does not see a stale root
VF_REPO_ROOT=/repo bash -c "cd $HERE && sed -e 's|@REPO@|/repo|g' -e \"s|@HOOKS@|\$(grep -q '^verif_hooks' /repo/fontc/Cargo.toml 2>/dev/null && echo ', features = [\\\"verif_hooks\\\"]')|g\" engine/Cargo.toml.tmpl > engine/Cargo.toml"
exit $rc
