//! C18 — Names referenced from other tables exist and say what the source says.
use crate::ot::Font;
use crate::props::c03::{attach_source, build, classify, describe, Built};
use crate::run::{CaseReport, Ctx, Part};
use crate::synth::build::{compile_path, BuildOpts, Scratch};
use crate::synth::model::*;
use read_fonts::tables::layout::FeatureParams;
use read_fonts::TableProvider;
use serde_json::json;
use std::collections::BTreeMap;

pub fn profile() -> Profile {
    Profile { min_axes: 0, max_axes: 2, min_glyphs: 3, max_glyphs: 5, naming: true, instances: true, latin_only: true, point_axis: true, ..Profile::base() }
}

/// Windows / Unicode BMP / en-US records: id -> string. Duplicated records are reported.
pub fn english_names(font: &Font) -> Result<BTreeMap<u16, String>, String> {
    let name = font.f.name().map_err(|e| format!("name: {e}"))?;
    let mut out = BTreeMap::new();
    for rec in name.name_record() {
        if rec.platform_id() == 3 && rec.encoding_id() == 1 && rec.language_id() == 0x409 {
            let s = rec.string(name.string_data()).map_err(|e| format!("name string: {e}"))?.chars().collect::<String>();
            if out.insert(rec.name_id().to_u16(), s).is_some() { return Err(format!("two Windows/en-US records for name id {}", rec.name_id().to_u16())); }
        }
    }
    Ok(out)
}

fn ribbi(s: &str) -> bool { matches!(s, "Regular" | "Bold" | "Italic" | "Bold Italic") }
fn ps_filter(s: &str) -> String { s.chars().filter(|c| !c.is_ascii_whitespace() && !"[](){}<>/%".contains(*c) && (33..127).contains(&(*c as u32))).collect() }

/// The documented ufo2ft fallback chain, for the classes in which it is unambiguous.
/// Returns id -> expected string (None = the record must be absent), or None when the class is not covered.
pub fn expected_names(info: &FontInfo) -> Option<BTreeMap<u16, Option<String>>> {
    let (fam, style) = (info.family.clone()?, info.style.clone()?);
    let tfam = info.preferred_family.clone().unwrap_or(fam.clone());
    let tsub = info.preferred_subfamily.clone().unwrap_or(style.clone());
    let cap = |s: &str| match s { "regular" => "Regular", "bold" => "Bold", "italic" => "Italic", _ => "Bold Italic" }.to_string();
    let (id1, id2) = match (&info.style_map_family, info.style_map_style) {
        (Some(f), Some(s)) => (f.clone(), cap(s)),
        // only the family given: the style falls back to the style name when that is one of the four, else Regular
        (Some(f), None) => { if info.preferred_subfamily.is_some() { return None; } (f.clone(), if ribbi(&style) { style.clone() } else { "Regular".into() }) }
        (None, Some(_)) => return None,
        (None, None) => {
            // the fallback looks at the style name; with preferred names in play implementations differ on which one
            if info.preferred_family.is_some() || info.preferred_subfamily.is_some() { return None; }
            if ribbi(&style) { (fam.clone(), style.clone()) } else { (format!("{fam} {style}"), "Regular".to_string()) }
        }
    };
    let mut m: BTreeMap<u16, Option<String>> = BTreeMap::new();
    m.insert(1, Some(id1.clone())); m.insert(2, Some(id2.clone()));
    if (tfam.clone(), tsub.clone()) == (id1, id2) { m.insert(16, None); m.insert(17, None); } else { m.insert(16, Some(tfam.clone())); m.insert(17, Some(tsub.clone())); }
    let full = std::iter::once(tfam.as_str()).chain(tsub.split_ascii_whitespace()).collect::<Vec<_>>().join(" ");
    m.insert(4, Some(full));
    let ps = info.postscript_font_name.clone().unwrap_or_else(|| ps_filter(&format!("{}-{}", tfam.replace(' ', ""), tsub)));
    m.insert(6, Some(ps.clone()));
    let (maj, min) = (info.version_major.unwrap_or(0), info.version_minor.unwrap_or(0));
    m.insert(5, Some(format!("Version {maj}.{min:03}")));
    m.insert(3, Some(format!("{maj}.{min:03};NONE;{ps}")));
    Some(m)
}

pub fn check_names(rep: &mut CaseReport, f: &SynthFont, bytes: &[u8]) {
    let font = match Font::new(bytes) { Ok(x) => x, Err(e) => { rep.fail("output-unparseable", e); return; } };
    let names = match english_names(&font) { Ok(n) => n, Err(e) => { rep.fail("name-table-inconsistent", e); return; } };
    let resolve = |rep: &mut CaseReport, id: u16, what: &str| -> Option<String> {
        rep.evals += 1;
        match names.get(&id) { Some(s) if !s.is_empty() => Some(s.clone()), Some(_) => { rep.fail("referenced-name-is-empty", format!("{what}: name id {id}")); None } None => { rep.fail("referenced-name-id-has-no-record", format!("{what}: name id {id} has no Windows/en-US record; name table has {:?}", names.keys().collect::<Vec<_>>())); None } }
    };
    let var_axes = f.var_axes();
    let mut coincidence = false;
    if let Ok(fvar) = font.f.fvar() {
        if let Ok(axes) = fvar.axes() {
            for (i, a) in axes.iter().enumerate() {
                let id = a.axis_name_id().to_u16();
                if id < 256 { rep.fail("fvar-axis-name-id-in-reserved-range", format!("axis {} ({}): name id {id}", i, a.axis_tag())); }
                if let (Some(s), Some(ma)) = (resolve(rep, id, &format!("fvar axis {}", a.axis_tag())), var_axes.get(i)) {
                    let want = ma.label.clone().unwrap_or(ma.name.clone());
                    if s != want { rep.fail("fvar-axis-name-differs-from-source-label", format!("axis {}: name table says {s:?}, source label is {want:?} (other labels {:?})", ma.tag, ma.other_labels)); }
                }
            }
        }
        if let Ok(insts) = fvar.instances() {
            let list: Vec<_> = insts.iter().flatten().collect();
            if list.len() != f.instances.len() { rep.fail("fvar-instance-count", format!("{} vs {}", list.len(), f.instances.len())); }
            for (k, (inst, mi)) in list.iter().zip(&f.instances).enumerate() {
                let id = inst.subfamily_name_id.to_u16();
                let at_default = f.font_coords(&mi.norm).iter().all(|v| *v == 0.0);
                let ok = (256..=32767).contains(&id) || ((id == 2 || id == 17) && at_default);
                if !ok { rep.fail(if at_default { "fvar-default-instance-subfamily-id-not-2-17-or-font-specific" } else { "fvar-instance-subfamily-id-in-reserved-range" }, format!("instance {k} ({:?}) at {:?}: subfamilyNameID {id}", mi.style, mi.norm)); }
                if let (Some(s), Some(want)) = (resolve(rep, id, &format!("fvar instance {k}")), mi.style.clone()) {
                    if s != want { rep.fail("fvar-instance-name-differs-from-source", format!("instance {k}: name id {id} says {s:?}, source style name is {want:?}")); }
                }
                if let Some(ps) = inst.post_script_name_id {
                    let pid = ps.to_u16();
                    match (&mi.ps_name, pid) {
                        (None, 0xFFFF) => {}
                        (None, other) => rep.fail("fvar-instance-has-postscript-name-the-source-lacks", format!("instance {k}: postScriptNameID {other}")),
                        (Some(_), p) if p < 256 || p == 0xFFFF => rep.fail("fvar-instance-postscript-name-id-invalid", format!("instance {k}: postScriptNameID {p} but the source names it {:?}", mi.ps_name)),
                        (Some(want), p) => { if let Some(s) = resolve(rep, p, &format!("fvar instance {k} postscript name")) { if s != *want { rep.fail("fvar-instance-postscript-name-differs-from-source", format!("instance {k}: {s:?} vs {want:?}")); } } }
                    }
                } else if mi.ps_name.is_some() { rep.fail("fvar-instance-postscript-name-missing", format!("instance {k}: source names it {:?}", mi.ps_name)); }
                let i0 = &f.sources[0].info;
                if [i0.family.as_ref(), i0.style.as_ref()].iter().flatten().any(|s| Some(*s) == mi.style.as_ref()) { coincidence = true; }
            }
        }
    } else if !var_axes.is_empty() { rep.fail("variable-source-without-fvar", ""); }
    let fea_stat = f.features.as_ref().map(|t| t.contains("table STAT")).unwrap_or(false);
    if fea_stat { rep.class("stat-from-feature-code"); }
    // records the source supplies under font-specific ids keep their strings
    for (id, want) in &f.sources[0].info.name_records {
        rep.evals += 1;
        rep.class("source-name-records");
        match names.get(id) { Some(s) if s == want => {} other => rep.fail("source-name-record-lost-or-overwritten", format!("openTypeNameRecords gives name id {id} = {want:?}; the font has {other:?}")) }
    }
    if let Ok(stat) = font.f.stat() {
        if let Ok(axes) = stat.design_axes() {
            for a in axes {
                let id = a.axis_name_id().to_u16();
                if id < 256 { rep.fail("stat-axis-name-id-in-reserved-range", format!("{}: {id}", a.axis_tag())); }
                if let (Some(s), Some(ma)) = (resolve(rep, id, &format!("STAT axis {}", a.axis_tag())), var_axes.iter().find(|m| m.tag == a.axis_tag().to_string())) {
                    let want = if fea_stat { format!("Stat {}", ma.name) } else { ma.label.clone().unwrap_or(ma.name.clone()) };
                    if s != want { rep.fail("stat-axis-name-differs-from-source-label", format!("axis {}: {s:?} vs {want:?}", ma.tag)); }
                }
            }
        }
        if let Some(id) = stat.elided_fallback_name_id() {
            let got = resolve(rep, id.to_u16(), "STAT elidedFallbackNameID");
            if let (Some(got), Some(t)) = (got, f.features.as_ref()) {
                if t.contains("ElidedFallbackNameID 2;") && Some(&got) != names.get(&2) { rep.fail("stat-elided-fallback-name-differs-from-feature-code", format!("the feature file says name id 2 ({:?}); STAT points at id {} = {got:?}", names.get(&2), id.to_u16())); }
                if t.contains("ElidedFallbackName {") && got != "Elided" { rep.fail("stat-elided-fallback-name-differs-from-feature-code", format!("the feature file says \"Elided\"; STAT points at id {} = {got:?}", id.to_u16())); }
            }
        }
        if let Some(Ok(vals)) = stat.offset_to_axis_values() {
            for v in vals.axis_values().iter().flatten() {
                use read_fonts::tables::stat::AxisValue;
                let id = match v { AxisValue::Format1(t) => t.value_name_id(), AxisValue::Format2(t) => t.value_name_id(), AxisValue::Format3(t) => t.value_name_id(), AxisValue::Format4(t) => t.value_name_id() };
                resolve(rep, id.to_u16(), "STAT axis value");
            }
        }
    }
    // feature parameters (stylistic set names supplied through feature code)
    let want_feature_name = f.features.as_ref().map(|t| t.contains("featureNames")).unwrap_or(false);
    let mut seen_ss = 0;
    if let Ok(gsub) = font.f.gsub() { if let Ok(fl) = gsub.feature_list() {
        for fr in fl.feature_records() {
            let Ok(feat) = fr.feature(fl.offset_data()) else { continue };
            match feat.feature_params() {
                Some(Ok(FeatureParams::StylisticSet(p))) => {
                    seen_ss += 1;
                    let id = p.ui_name_id().to_u16();
                    if id < 256 { rep.fail("feature-params-name-id-in-reserved-range", format!("{}: {id}", fr.feature_tag())); }
                    if let Some(s) = resolve(rep, id, &format!("GSUB feature {} UI name", fr.feature_tag())) { if want_feature_name && s != "Fancy alternates" { rep.fail("feature-name-differs-from-feature-code", format!("{}: name id {id} says {s:?}, the feature file says \"Fancy alternates\"", fr.feature_tag())); } }
                }
                Some(Ok(FeatureParams::CharacterVariant(p))) => {
                    // the labels the feature file gives this character variant: the feature label, then the parameter labels as a run of ids
                    if let Some((feat_label, params)) = f.features.as_deref().and_then(|t| cv_labels(t, &fr.feature_tag().to_string())) {
                        rep.class("cvXX-parameter-labels-checked");
                        if let Some(s) = resolve(rep, p.feat_ui_label_name_id().to_u16(), "cvXX feature label") { if s != feat_label { rep.fail("character-variant-label-differs-from-feature-code", format!("{}: feature label {s:?}, the feature file says {feat_label:?}", fr.feature_tag())); } }
                        if p.num_named_parameters() as usize != params.len() { rep.fail("character-variant-label-differs-from-feature-code", format!("{}: {} named parameters, the feature file has {}", fr.feature_tag(), p.num_named_parameters(), params.len())); }
                        else { for (k, want) in params.iter().enumerate() { let id = p.first_param_ui_label_name_id().to_u16() + k as u16; if let Some(s) = resolve(rep, id, "cvXX parameter label") { if &s != want { rep.fail("character-variant-label-differs-from-feature-code", format!("{}: label of parameter {} (name id {id}) is {s:?}, the feature file says {want:?}", fr.feature_tag(), k + 1)); } } } }
                    }
                    for id in [p.feat_ui_label_name_id(), p.feat_ui_tooltip_text_name_id(), p.sample_text_name_id(), p.first_param_ui_label_name_id()] { if id.to_u16() != 0 && id.to_u16() != 0xFFFF { resolve(rep, id.to_u16(), "cvXX parameter"); } } }
                _ => {}
            }
        }
    } }
    if want_feature_name { rep.class(format!("ss01-feature-records={}", seen_ss.min(3))); if seen_ss == 0 { rep.fail("feature-names-in-feature-code-but-no-feature-params", ""); } }
    // the fallback chain
    if let Some(exp) = expected_names(&f.sources[0].info) {
        rep.class("name-chain-checked");
        for (id, want) in exp {
            rep.evals += 1;
            // the compiler appends its own stamp (';fontc <version>') to the version string
            let got = names.get(&id).cloned().map(|s| if id == 5 { s.split_once(";fontc ").map(|(h, _)| h.to_string()).unwrap_or(s) } else { s });
            if got != want { rep.fail(format!("name-id-{id}-differs-from-documented-fallback"), format!("name id {id}: font has {got:?}, the fallback rules give {want:?}; fontinfo {:?}", f.sources[0].info)); }
        }
    } else { rep.class("name-chain-class-not-covered"); }
    rep.nontrivial = !var_axes.is_empty() && !f.instances.is_empty() && coincidence;
    if coincidence { rep.class("instance-named-like-family-or-style"); }
    if f.axes.iter().any(|a| a.label.is_none() && !a.other_labels.is_empty()) { rep.class("axis-labels-without-english"); }
    if var_axes.is_empty() { rep.class("static"); }
}

pub fn check(ctx: &Ctx, genome: &[u16]) -> CaseReport {
    let mut rep = CaseReport::default();
    let f = SynthFont::decode(genome, &profile());
    rep.key = f.hash();
    classify(&mut rep, &f);
    rep.sample = Some(json!({"font": describe(&f), "info": format!("{:?}", f.sources[0].info), "axis_labels": f.axes.iter().map(|a| json!([a.name, a.label, a.other_labels])).collect::<Vec<_>>(),
        "instances": f.instances.iter().map(|i| json!({"style": i.style, "family": i.family, "ps": i.ps_name, "norm": i.norm})).collect::<Vec<_>>(), "features": f.features}));
    if ctx.dry { for (k, v) in crate::synth::ufo::render(&f) { rep.artifacts.push((k, v.into_bytes())); } return rep; }
    let Some(b) = build(ctx, &mut rep, f, &BuildOpts::default()) else {
        // recorded finding: an ElidedFallbackNameID naming a record of the font's own name table panics in fea-rs
        for fl in rep.failures.iter_mut() { if fl.detail.contains("ElidedFallbackNameID") && fl.detail.contains("does not exist in font") { fl.signature = "fea-stat-elided-fallback-name-id-from-the-fonts-name-table-panics".into(); } }
        return rep;
    };
    check_names(&mut rep, &b.font, &b.bytes);
    // "does not depend on anything but the source": rebuild (fresh hash keys) and compare the naming tables
    let scratch = Scratch::new(&ctx.work);
    let ds = crate::synth::ufo::write_tree(scratch.path(), &b.files).expect("write tree");
    for round in 0..3 {
        match compile_path(&ds, &BuildOpts::default()) {
            Ok(again) => { if let Some(t) = naming_tables_differ(&b, &again) { rep.fail("naming-tables-differ-between-builds-of-one-source", format!("table {t} differs in rebuild {round}")); break; } }
            Err(e) => { rep.fail("rebuild-failed", e.text().to_string()); break; }
        }
    }
    attach_source(&mut rep, &b);
    rep
}

fn naming_tables_differ(b: &Built, again: &[u8]) -> Option<String> {
    let (Ok(f1), Ok(f2)) = (Font::new(&b.bytes), Font::new(again)) else { return Some("sfnt".into()) };
    for t in [b"name", b"fvar", b"STAT", b"GSUB"] {
        let tag = read_fonts::types::Tag::new(t);
        if f1.f.table_data(tag).map(|d| d.as_bytes().to_vec()) != f2.f.table_data(tag).map(|d| d.as_bytes().to_vec()) { return Some(String::from_utf8_lossy(t).to_string()); }
    }
    None
}

pub fn parts() -> Vec<Part> {
    vec![Part { name: "names", genome_len: 2900, cases_quick: 1500, cases_thorough: 30_000, threads: 12, max_shrink_iters: 300, check: Box::new(check), remote: None }]
}
/// (feature label, parameter labels) of `feature <tag> { cvParameters { ... } }` in generated feature code
fn cv_labels(fea: &str, tag: &str) -> Option<(String, Vec<String>)> {
    let start = fea.find(&format!("feature {tag} {{"))?;
    let body = &fea[start..start + fea[start..].find(&format!("}} {tag};"))?];
    let label_after = |s: &str| -> Option<String> { let i = s.find("name \"")? + 6; let j = s[i..].find('"')?; Some(s[i..i + j].to_string()) };
    let feat = label_after(&body[body.find("FeatUILabelNameID")?..])?;
    let mut params = vec![];
    let mut rest = body;
    while let Some(i) = rest.find("ParamUILabelNameID") { rest = &rest[i + 18..]; params.push(label_after(rest)?); }
    Some((feat, params))
}

pub const RULE: &str = "genome -> SynthFont with 0-2 axes (+ optional point axis), naming facet: family / style present or missing, styleMap family / style, preferred family / subfamily, postscript name, version; RIBBI and non-RIBBI styles; axis labels (English, only other languages, none; equal to family / style strings); 0-4 named instances whose style names are drawn from the family / style / full-name strings, axis label strings and fresh strings, with and without postscript names, at default and other locations; optional feature code with a stylistic set featureNames block registered under 1-3 language systems (one with a language-specific lookup) and, in two thirds of those, character variants cv01 / cv02 with a feature label and 2-3 parameter labels of which one string repeats across the two features (feature label and the run of parameter label ids are compared with the feature file). Checked: every name id referenced by fvar, STAT and GSUB feature parameters resolves to a non-empty Windows en-US record; id ranges (axes >= 256; instance subfamily 2/17 only at the default location, else 256..32767; postscript >= 256 or 0xFFFF); strings equal the source's axis labels, instance style names, postscript names and feature names; ids 1,2,3,4,5,6,16,17 equal the documented ufo2ft fallback chain in the classes where it is unambiguous; name/fvar/STAT/GSUB identical over 3 rebuilds. non-trivial = variable source with an instance named like the family or style string";
pub const ASSUMPTIONS: &[&str] = &["the fallback chain is checked when family and style names are present and either both styleMap names are given, or only the styleMap family without a preferred subfamily, or neither styleMap nor preferred names are given (elsewhere implementations differ on which field the RIBBI test looks at)", "vendor id default NONE, no explicit unique id / version string / full name in the source", "axis names are not the lower-case MutatorMath names that fontTools expands"];
