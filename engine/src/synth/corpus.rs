//! The repository's own source fixtures (established at run time).
use crate::run::Ctx;
use std::path::{Path, PathBuf};
use std::sync::OnceLock;

fn walk(dir: &Path, out: &mut Vec<PathBuf>, depth: usize) {
    if depth > 4 { return; }
    let Ok(rd) = std::fs::read_dir(dir) else { return };
    let mut es: Vec<PathBuf> = rd.filter_map(|e| e.ok()).map(|e| e.path()).collect();
    es.sort();
    for p in es {
        let ext = p.extension().and_then(|e| e.to_str()).unwrap_or("");
        match ext {
            "designspace" | "glyphs" if p.is_file() => out.push(p),
            "ufo" | "glyphspackage" | "fontra" if p.is_dir() => out.push(p),
            _ if p.is_dir() => walk(&p, out, depth + 1),
            _ => {}
        }
    }
}

pub fn fixtures(ctx: &Ctx) -> &'static Vec<PathBuf> {
    static C: OnceLock<Vec<PathBuf>> = OnceLock::new();
    C.get_or_init(|| { let mut v = vec![]; walk(&ctx.repo.join("resources/testdata"), &mut v, 0); v })
}
