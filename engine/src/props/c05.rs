//! C05 — Every emitted font is a well-formed, internally consistent OpenType file.
use crate::genome::{fnv_str, Gen};
use crate::ot::validate::check_font;
use crate::ot::Font;
use crate::props::c03::{attach_source, build, classify, describe};
use crate::run::{CaseReport, Ctx, Part};
use crate::synth::build::{compile_path, BuildOpts};
use crate::synth::corpus::fixtures;
use crate::synth::model::*;
use serde_json::json;

pub fn gen_opts(g: &mut Gen) -> BuildOpts {
    BuildOpts {
        flatten: g.chance(1, 4), decompose: g.chance(1, 8), decompose_transformed: g.chance(1, 5), no_prefer_simple: g.chance(1, 3),
        keep_direction: g.chance(1, 5), no_production_names: g.chance(1, 5), propagate_anchors: match g.below(4) { 0 => Some(true), 1 => Some(false), _ => None },
        skip_features: g.chance(1, 8), ir_dir: None,
    }
}

pub fn all_facets() -> Profile {
    Profile { min_axes: 0, max_axes: 3, max_glyphs: 12, min_glyphs: 1, outlines: true, cubic: true, components: 5, transforms: true, mixed: true, sparse: 3,
        order_variety: true, non_export: true, metrics_class_a: true, vertical: true, half_coords: true, maps: true, awkward_axes: true, multi_codepoints: true, ps_names: true, anchors: true, kerning: true, instances: true, flat_maps: false, point_axis: true, weird_names: false, os2_ranges: true, ..Profile::base() }
}

/// validity + "tables the source calls for are present"
pub fn check_bytes(rep: &mut CaseReport, bytes: &[u8], f: Option<&SynthFont>, opts: &BuildOpts) {
    let (problems, nodes) = check_font(bytes);
    rep.evals += nodes as u64;
    for (sig, detail) in problems { rep.fail(sig, detail); }
    let Ok(font) = Font::new(bytes) else { return };
    if let Some(f) = f {
        if !f.axes.is_empty() {
            for t in [b"fvar", b"STAT", b"HVAR"] { if !font.has(t) { rep.fail("table-called-for-by-source-missing", format!("{} (source has {} axes)", String::from_utf8_lossy(t), f.axes.len())); } }
            let varies = f.glyphs.iter().filter(|g| g.export).any(|g| { let d = g.sources.get(&0).map(|s| format!("{:?}{:?}", s.contours, s.comps)); g.sources.values().any(|s| Some(format!("{:?}{:?}", s.contours, s.comps)) != d) });
            if varies && !font.has(b"gvar") { rep.fail("table-called-for-by-source-missing", "gvar (outlines vary between masters)"); }
        }
        if !opts.skip_features {
            // a pair counts when both sides name at least one exported glyph (pairs with non-export or unknown glyphs are dropped)
            let exported = |n: &String, k: &Kerning| -> bool { match k.groups.get(n) { Some(m) => m.iter().any(|x| f.glyph(x).map(|g| g.export).unwrap_or(false)), None => f.glyph(n).map(|g| g.export).unwrap_or(false) } };
            if f.sources.iter().any(|s| s.kerning.as_ref().map(|k| k.pairs.iter().any(|((a, b), v)| *v != 0.0 && exported(a, k) && exported(b, k))).unwrap_or(false)) && !font.has(b"GPOS") { rep.fail("table-called-for-by-source-missing", "GPOS (source has kerning)"); }
            if !f.rules.is_empty() && !font.has(b"GSUB") { rep.fail("table-called-for-by-source-missing", "GSUB (source has rules)"); }
        }
    }
    rep.nontrivial = font.has(b"fvar") || font.has(b"GPOS") || font.has(b"GSUB");
}

pub fn check_synth(ctx: &Ctx, genome: &[u16]) -> CaseReport {
    let mut rep = CaseReport::default();
    let mut g = Gen::new(genome);
    let opts = gen_opts(&mut g.fork(12));
    let f = SynthFont::decode(&genome[12.min(genome.len())..], &all_facets());
    rep.key = f.hash() ^ fnv_str(&opts.label());
    classify(&mut rep, &f);
    rep.class(format!("opts:{}", if opts == BuildOpts::default() { "default" } else { "non-default" }));
    rep.sample = Some(json!({"options": opts.label(), "font": describe(&f)}));
    if ctx.dry { for (k, v) in crate::synth::ufo::render(&f) { rep.artifacts.push((k, v.into_bytes())); } return rep; }
    let Some(b) = build(ctx, &mut rep, f, &opts) else { return rep };
    check_bytes(&mut rep, &b.bytes, Some(&b.font), &opts);
    attach_source(&mut rep, &b);
    rep
}

pub fn check_corpus(ctx: &Ctx, genome: &[u16]) -> CaseReport {
    let mut rep = CaseReport::default();
    let mut g = Gen::new(genome);
    let fx = fixtures(ctx);
    if fx.is_empty() { rep.discard = true; return rep; }
    let i = g.below(fx.len());
    let opts = if g.chance(1, 2) { BuildOpts::default() } else { gen_opts(&mut g) };
    let rel = fx[i].strip_prefix(&ctx.repo).unwrap_or(&fx[i]).display().to_string();
    rep.key = fnv_str(&rel) ^ fnv_str(&opts.label());
    rep.sample = Some(json!({"fixture": rel, "options": opts.label()}));
    if ctx.dry { return rep; }
    match compile_path(&fx[i], &opts) {
        Ok(bytes) => { rep.class("fixture-compiles"); check_bytes(&mut rep, &bytes, None, &opts); }
        Err(_) => { rep.class("fixture-rejected"); rep.discard = true; } // not in the domain of this property ("whenever compilation reports success")
    }
    rep
}

pub fn parts() -> Vec<Part> {
    vec![
        Part { name: "synth", genome_len: 1500, cases_quick: 400, cases_thorough: 8000, threads: 12, max_shrink_iters: 250, check: Box::new(check_synth), remote: None },
        Part { name: "corpus", genome_len: 16, cases_quick: 300, cases_thorough: 3000, threads: 12, max_shrink_iters: 60, check: Box::new(check_corpus), remote: None },
    ]
}

pub const RULE: &str = "synth: SynthFont with every facet on (0-3 axes, sparse/layer sources, all outline kinds, components, glyph order variety, non-export, production names, metrics, vertical) x a generated option set (flatten / decompose / decompose-transformed / prefer-simple / keep-direction / production names / propagate-anchors / skip-features); corpus: a fixture of resources/testdata x default or generated options (fixtures fontc rejects are outside the property and discarded, counted). Oracle: raw sfnt container checks, required tables, full read-fonts traversal of every table (every offset resolved), glyph-count agreement (maxp/loca/post/hmtx/vmtx/gvar/HVAR), region/axis counts, delta-set indices, cmap and component gids in range, component graph acyclic and within maxp depth, fvar name ids present, tables the source calls for present. evaluations = table nodes traversed. non-trivial = font has fvar or layout tables; distinct = hash(model or fixture, options)";
pub const ASSUMPTIONS: &[&str] = &["read-fonts is the independent reader; a table it cannot traverse is reported as malformed", "layout index checks (lookup / feature / class indices) are done by the layout interpreter shared with C09-C11 and C16"];
