//! Genome: the single source of randomness of every case. A case is a pure function of a
//! fixed-length `Vec<u16>`; every choice consumes the next word and maps it monotonically, so
//! that shrinking words toward zero shrinks the case (fewer axes / masters / glyphs / points).
use proptest::strategy::{NewTree, Strategy, ValueTree};
use proptest::test_runner::TestRunner;

#[derive(Clone)]
pub struct Gen<'a> {
    words: &'a [u16],
    pos: usize,
}

impl<'a> Gen<'a> {
    pub fn new(words: &'a [u16]) -> Self {
        Gen { words, pos: 0 }
    }
    pub fn word(&mut self) -> u16 {
        let w = self.words.get(self.pos).copied().unwrap_or(0);
        self.pos += 1;
        w
    }
    /// A sub-genome of `n` words; the parent skips them. Gives locality: zeroing one block
    /// does not change the meaning of the others.
    pub fn fork(&mut self, n: usize) -> Gen<'a> {
        let start = self.pos.min(self.words.len());
        let end = (self.pos + n).min(self.words.len());
        self.pos += n;
        Gen { words: &self.words[start..end], pos: 0 }
    }
    /// uniform in 0..n, monotone in the word (0 -> 0)
    pub fn below(&mut self, n: usize) -> usize {
        let w = self.word() as u64;
        if n <= 1 { 0 } else { ((w * n as u64) >> 16) as usize }
    }
    pub fn range(&mut self, lo: i64, hi: i64) -> i64 {
        debug_assert!(hi >= lo);
        lo + self.below((hi - lo + 1) as usize) as i64
    }
    /// true with probability num/den; word 0 gives false
    pub fn chance(&mut self, num: u32, den: u32) -> bool {
        let w = self.word() as u64;
        w * den as u64 >= (den as u64 - num as u64) * 65536 && num > 0
    }
    pub fn pick<'b, T>(&mut self, items: &'b [T]) -> &'b T {
        &items[self.below(items.len())]
    }
    /// index chosen with the given weights; index 0 is the shrink target
    pub fn weighted(&mut self, weights: &[u32]) -> usize {
        let total: u64 = weights.iter().map(|w| *w as u64).sum();
        let x = (self.word() as u64 * total) >> 16;
        let mut acc = 0u64;
        for (i, w) in weights.iter().enumerate() {
            acc += *w as u64;
            if x < acc { return i; }
        }
        weights.len() - 1
    }
    /// signed value in [-m, m], 0 at word 0, small magnitudes first
    pub fn signed(&mut self, m: i64) -> i64 {
        let v = self.below((2 * m + 1) as usize) as i64;
        // 0,1,-1,2,-2,...
        if v % 2 == 0 { -(v / 2) } else { (v + 1) / 2 }
    }
}

#[derive(Debug, Clone, Copy)]
pub struct GenomeStrategy(pub usize);

impl Strategy for GenomeStrategy {
    type Tree = GenomeTree;
    type Value = Vec<u16>;
    fn new_tree(&self, runner: &mut TestRunner) -> NewTree<Self> {
        use proptest::prelude::RngCore;
        let rng = runner.rng();
        let mut v = Vec::with_capacity(self.0);
        while v.len() < self.0 {
            let x = rng.next_u64();
            for k in 0..4 {
                if v.len() < self.0 { v.push((x >> (16 * k)) as u16); }
            }
        }
        Ok(GenomeTree::new(v))
    }
}

/// Shrinking: phase 1 zeroes chunks of halving size (delta-debugging style), phase 2 halves
/// individual non-zero words. Works inside proptest's simplify/complicate protocol.
pub struct GenomeTree {
    cur: Vec<u16>,
    prev: Option<Vec<u16>>,
    chunk: usize, // current chunk size; 0 = phase 2
    pos: usize,
    word_floor: Vec<u16>, // phase 2: known-passing lower bound per word (exclusive)
}

impl GenomeTree {
    pub fn new(v: Vec<u16>) -> Self {
        let n = v.len().max(1);
        GenomeTree { word_floor: vec![0; v.len()], cur: v, prev: None, chunk: n, pos: 0 }
    }
    /// propose the next candidate (mutating cur, saving prev); false if none left
    fn propose(&mut self) -> bool {
        let n = self.cur.len();
        loop {
            if self.chunk > 0 {
                while self.pos < n {
                    let end = (self.pos + self.chunk).min(n);
                    if self.cur[self.pos..end].iter().any(|w| *w != 0) {
                        self.prev = Some(self.cur.clone());
                        for w in &mut self.cur[self.pos..end] { *w = 0; }
                        return true;
                    }
                    self.pos = end;
                }
                self.pos = 0;
                self.chunk = if self.chunk == 1 { 0 } else { self.chunk.div_ceil(2) };
                if self.chunk == 0 { self.word_floor = vec![0; n]; }
                continue;
            }
            // phase 2: binary search each word between floor (known passing or 0) and cur
            while self.pos < n {
                let c = self.cur[self.pos];
                let f = self.word_floor[self.pos];
                if c as u32 >= f as u32 + 2 {
                    let mid = f + (c - f) / 2;
                    self.prev = Some(self.cur.clone());
                    self.cur[self.pos] = mid;
                    return true;
                }
                self.pos += 1;
            }
            return false;
        }
    }
}

impl ValueTree for GenomeTree {
    type Value = Vec<u16>;
    fn current(&self) -> Vec<u16> { self.cur.clone() }
    /// called when the last candidate still FAILED: keep it, move on
    fn simplify(&mut self) -> bool {
        if self.prev.is_some() {
            self.prev = None;
            if self.chunk > 0 { self.pos += self.chunk; }
            // phase 2: stay on the same word, cur is the new upper bound
        }
        self.propose()
    }
    /// called when the last candidate PASSED: undo it, move on
    fn complicate(&mut self) -> bool {
        if let Some(p) = self.prev.take() {
            if self.chunk > 0 {
                self.cur = p;
                self.pos += self.chunk;
            } else {
                let tried = self.cur[self.pos];
                self.cur = p;
                self.word_floor[self.pos] = tried; // passing => minimum failing is above
            }
        }
        self.propose()
    }
}

pub fn fnv(bytes: &[u8]) -> u64 {
    let mut h: u64 = 0xcbf29ce484222325;
    for b in bytes { h ^= *b as u64; h = h.wrapping_mul(0x100000001b3); }
    h
}
pub fn fnv_str(s: &str) -> u64 { fnv(s.as_bytes()) }
