//! C16 — Conditional substitutions fire exactly where the source rules say.
//! (1) pure: fontir::feature_variations::overlay_feature_variations evaluated by first match at
//! sample points vs the rules evaluated directly; (2) end to end: designspace <rules> compiled,
//! GSUB FeatureVariations interpreted at sample locations vs the rules.
use crate::genome::{fnv_str, Gen};
use crate::ot::layout::{Layout, Tbl};
use crate::ot::Font;
use crate::props::c03::{attach_source, build, classify, describe, gid_map};
use crate::run::{CaseReport, Ctx, Part};
use crate::synth::build::BuildOpts;
use crate::synth::model::*;
use fontdrasil::coords::NormalizedCoord;
use fontdrasil::types::GlyphName;
use fontir::feature_variations::{overlay_feature_variations, NBox, Region};
use serde_json::json;
use std::collections::{BTreeMap, BTreeSet};
use write_fonts::types::Tag;

const Q: f64 = 16384.0;
type CondSet = Vec<(usize, f64, f64)>; // (axis, min, max) normalized, inclusive
#[derive(Clone, Debug)]
struct PRule { sets: Vec<CondSet>, subs: Vec<(String, String)> }

fn contains(cs: &CondSet, p: &[f64]) -> bool { cs.iter().all(|(a, lo, hi)| p[*a] >= *lo && p[*a] <= *hi) }

/// the statement: substitutions of every rule with a condition set containing p, in rule order, earlier wins
fn expected_at(rules: &[PRule], p: &[f64]) -> BTreeMap<String, String> {
    let mut m = BTreeMap::new();
    for r in rules { if r.sets.iter().any(|cs| contains(cs, p)) { for (a, b) in &r.subs { m.entry(a.clone()).or_insert(b.clone()); } } }
    m
}

/// What fontc (following fontTools) does before overlaying: rules with identical substitutions are
/// merged into the position of the first of them; then rules with identical regions are merged into
/// the position of the last of them (earlier substitutions winning inside the merged rule). Used only
/// to tell the recorded finding "precedence lost by rule merging" from any other disagreement.
fn merged(rules: &[PRule]) -> Vec<PRule> {
    let norm_subs = |r: &PRule| { let mut m: BTreeMap<String, String> = BTreeMap::new(); for (a, b) in &r.subs { m.insert(a.clone(), b.clone()); } m };
    let mut step1: Vec<(BTreeMap<String, String>, Vec<CondSet>)> = vec![];
    for r in rules { let m = norm_subs(r); match step1.iter_mut().find(|(k, _)| *k == m) { Some((_, sets)) => sets.extend(r.sets.iter().cloned()), None => step1.push((m, r.sets.clone())) } }
    let norm_region = |sets: &Vec<CondSet>| -> Vec<Vec<(usize, i64, i64)>> { let mut v: Vec<Vec<(usize, i64, i64)>> = sets.iter().map(|cs| { let mut c: Vec<(usize, i64, i64)> = cs.iter().filter(|c| !(c.1 == -1.0 && c.2 == 1.0)).map(|c| (c.0, (c.1 * Q).round() as i64, (c.2 * Q).round() as i64)).collect(); c.sort(); c }).collect(); v.sort(); v };
    let mut step2: Vec<(Vec<Vec<(usize, i64, i64)>>, Vec<CondSet>, BTreeMap<String, String>)> = vec![];
    for (subs, sets) in step1.into_iter().rev() {
        let key = norm_region(&sets);
        match step2.iter_mut().find(|(k, _, _)| *k == key) { Some((_, _, m)) => { for (a, b) in subs { m.insert(a, b); } } None => step2.push((key, sets, subs)) }
    }
    step2.into_iter().rev().map(|(_, sets, subs)| PRule { sets, subs: subs.into_iter().collect() }).collect()
}

/// merged rules containing p applied the way the compiled lookups are: one lookup per distinct
/// substitution map, ordered by content
fn expected_by_content_order(rules: &[PRule], p: &[f64]) -> BTreeMap<String, String> {
    let mut maps: Vec<Vec<(String, String)>> = merged(rules).iter().filter(|r| r.sets.iter().any(|cs| contains(cs, p))).map(|r| { let mut v = r.subs.clone(); v.sort(); v }).collect();
    maps.sort(); maps.dedup();
    let mut m = BTreeMap::new();
    for mm in maps { for (a, b) in mm { m.entry(a).or_insert(b); } }
    m
}

/// per axis: just inside / just outside every edge, midpoints, -1, 0, 1; the exact edge value only
/// where no other condition has an edge at that coordinate
fn sample_points(rules: &[PRule], bounds: &[(f64, f64)], g: &mut Gen, cap: usize) -> Vec<Vec<f64>> {
    let n_axes = bounds.len();
    let mut per_axis: Vec<Vec<f64>> = vec![];
    for a in 0..n_axes {
        // a coordinate that is the upper edge of one condition and the lower edge of another is where two
        // regions merely touch: the point itself is not sampled (only its two neighbours)
        let (mut los, mut his): (BTreeSet<i64>, BTreeSet<i64>) = Default::default();
        for r in rules { for cs in &r.sets { for (ax, lo, hi) in cs { if *ax == a { los.insert((lo * Q).round() as i64); his.insert((hi * Q).round() as i64); } } } }
        let touching = |e: i64| los.contains(&e) && his.contains(&e);
        let mut c: BTreeSet<i64> = [-(Q as i64), 0, Q as i64].into_iter().filter(|e| !touching(*e)).collect();
        let ks: Vec<i64> = los.union(&his).copied().collect();
        for e in &ks { for x in [e - 1, *e, e + 1] { if !touching(x) { c.insert(x); } } }
        for w in ks.windows(2) { let m = (w[0] + w[1]).div_euclid(2); if !touching(m) { c.insert(m); } }
        per_axis.push(c.into_iter().map(|v| v as f64 / Q).filter(|v| *v >= bounds[a].0 && *v <= bounds[a].1).collect());
    }
    let total: usize = per_axis.iter().map(|v| v.len()).product();
    let mut out = vec![];
    if total <= cap {
        let mut idx = vec![0usize; n_axes];
        loop {
            out.push((0..n_axes).map(|a| per_axis[a][idx[a]]).collect());
            let mut k = 0;
            loop { if k == n_axes { return out; } idx[k] += 1; if idx[k] < per_axis[k].len() { break; } idx[k] = 0; k += 1; }
        }
    }
    for _ in 0..cap { out.push((0..n_axes).map(|a| per_axis[a][g.below(per_axis[a].len())]).collect()); }
    out
}

const TAGS: [&str; 3] = ["wght", "wdth", "CNTR"];

fn gen_rules_pure(g: &mut Gen) -> (usize, Vec<PRule>) {
    let n_axes = 1 + g.below(3);
    let many = g.chance(1, 12);
    let n_rules = if many { 60 + g.below(12) } else { 1 + g.below(8) };
    let ins = ["a", "b", "c"]; let outs = ["x", "y", "z", "w"];
    // half of the cases are free of same-input conflicts by construction (every input has one fixed output)
    let consistent = g.chance(1, 2);
    let mut rules = vec![];
    for ri in 0..n_rules {
        let n_sets = if many { 1 } else { 1 + g.weighted(&[5, 2, 1]) };
        let mut sets = vec![];
        for _ in 0..n_sets {
            let mut cs: CondSet = vec![];
            for a in 0..n_axes {
                let use_axis = g.chance(2, 3);
                let (lo, hi) = if many {
                    // narrow, mostly disjoint slabs so that the overlay stays small
                    let w = 2.0 / 80.0; let k = (ri * 7 + a * 3) % 78; let lo = -1.0 + k as f64 * w; g.word(); g.word(); (lo, lo + w * (1 + g.below(2)) as f64)
                } else {
                    let style = g.below(3);
                    let (x, y) = if style == 0 { (g.below(9) as f64 * 0.25 - 1.0, g.below(9) as f64 * 0.25 - 1.0) } else { ((g.below(32769) as f64 - 16384.0) / Q, (g.below(32769) as f64 - 16384.0) / Q) };
                    if x <= y { (x, y) } else { (y, x) }
                };
                let (lo, hi) = ((lo * Q).round() / Q, ((hi * Q).round() / Q).min(1.0));
                if lo >= hi { continue; }
                if use_axis || (cs.is_empty() && a == n_axes - 1) { cs.push((a, lo, hi)); }
            }
            if !cs.is_empty() { sets.push(cs); }
        }
        if sets.is_empty() { continue; }
        let n_subs = 1 + g.below(2);
        let mut subs: Vec<(String, String)> = vec![];
        for _ in 0..n_subs { let ia = g.below(3); let a = ins[ia].to_string(); let ob = g.below(4); let b = outs[if consistent { ia } else { ob }].to_string(); if !subs.iter().any(|(x, _)| *x == a) { subs.push((a, b)); } }
        rules.push(PRule { sets, subs });
    }
    (n_axes, rules)
}

fn consistent_rules(rules: &[PRule]) -> bool {
    let mut m: BTreeMap<&str, &str> = BTreeMap::new();
    for r in rules { for (a, b) in &r.subs { if *m.entry(a.as_str()).or_insert(b.as_str()) != b.as_str() { return false; } } }
    true
}

fn overlaps(rules: &[PRule]) -> bool {
    for (i, r) in rules.iter().enumerate() { for s in &rules[i + 1..] { for a in &r.sets { for b in &s.sets {
        let axes: BTreeSet<usize> = a.iter().chain(b.iter()).map(|c| c.0).collect();
        let rng = |cs: &CondSet, ax: usize| cs.iter().find(|c| c.0 == ax).map(|c| (c.1, c.2)).unwrap_or((-1.0, 1.0));
        let inter = axes.iter().all(|ax| { let (l1, h1) = rng(a, *ax); let (l2, h2) = rng(b, *ax); l1.max(l2) < h1.min(h2) });
        let equal = axes.iter().all(|ax| rng(a, *ax) == rng(b, *ax));
        if inter && !equal { return true; }
    } } } }
    false
}

pub fn check_overlay(_ctx: &Ctx, genome: &[u16]) -> CaseReport {
    let mut rep = CaseReport::default();
    let mut g = Gen::new(genome);
    let (n_axes, rules) = gen_rules_pure(&mut g);
    rep.key = fnv_str(&format!("{rules:?}"));
    rep.sample = Some(json!({"axes": n_axes, "rules": rules.iter().map(|r| json!({"sets": r.sets, "subs": r.subs})).collect::<Vec<_>>() }));
    if rules.is_empty() { rep.discard = true; return rep; }
    rep.nontrivial = rules.len() >= 2 && overlaps(&rules);
    rep.class(format!("rules={}", match rules.len() { 1 => "1", 2..=4 => "2-4", 5..=8 => "5-8", _ => ">=60" }));
    if rep.nontrivial { rep.class("overlapping-unequal-regions"); }
    rep.class(if consistent_rules(&rules) { "conflict-free" } else { "same-input-different-output-in-two-rules" });
    let input: Vec<(Region, BTreeMap<GlyphName, GlyphName>)> = rules.iter().map(|r| {
        let mut region = Region::default();
        for cs in &r.sets { let mut b = NBox::default(); for (a, lo, hi) in cs { b.insert(Tag::new(TAGS[*a].as_bytes().try_into().unwrap()), Some(NormalizedCoord::new(*lo)), Some(NormalizedCoord::new(*hi))); } region.push(b); }
        (region, r.subs.iter().map(|(a, b)| (GlyphName::new(a), GlyphName::new(b))).collect())
    }).collect();
    let out = overlay_feature_variations(input);
    let boxes: Vec<(Vec<(usize, f64, f64)>, Vec<BTreeMap<String, String>>)> = out.iter().map(|(b, subs)| {
        (b.iter().map(|(t, (lo, hi))| (TAGS.iter().position(|x| *x == t.to_string()).unwrap_or(0), lo.to_f64(), hi.to_f64())).collect(),
         subs.iter().map(|m| m.iter().map(|(k, v)| (k.to_string(), v.to_string())).collect()).collect())
    }).collect();
    let cap = if rules.len() > 20 { 1500 } else { 5000 };
    for p in sample_points(&rules, &vec![(-1.0, 1.0); n_axes], &mut g, cap) {
        rep.evals += 1;
        let want = expected_at(&rules, &p);
        let mut got = BTreeMap::new();
        if let Some((_, subs)) = boxes.iter().find(|(b, _)| contains(b, &p)) { for m in subs { for (k, v) in m { got.entry(k.clone()).or_insert(v.clone()); } } }
        if got != want {
            // the recorded finding is reported once per case and the remaining points are still checked
            let known = got == expected_at(&merged(&rules), &p);
            if known && rep.failures.iter().any(|f| f.signature == "precedence-lost-by-rule-merging") { continue; }
            rep.fail(if known { "precedence-lost-by-rule-merging" } else { "overlay-result-differs-from-rules" }, format!("at {p:?}: rules give {want:?}, first matching box gives {got:?}; rules {rules:?}; boxes {boxes:?}"));
            if !known { break; }
        }
    }
    rep
}

pub fn profile() -> Profile {
    Profile { min_axes: 1, max_axes: 3, min_glyphs: 4, max_glyphs: 9, rules: true, latin_only: true, non_export: true, ..Profile::base() }
}

fn model_rules(f: &SynthFont) -> (Vec<usize>, Vec<PRule>) {
    // axes of the font (point axes are not part of fvar); conditions in normalized coordinates
    let var: Vec<usize> = f.axes.iter().enumerate().filter(|(_, a)| !a.is_point()).map(|(i, _)| i).collect();
    let rules = f.rules.iter().map(|r| PRule {
        sets: r.condition_sets.iter().map(|cs| cs.iter().filter_map(|(ai, mn, mx)| {
            let k = var.iter().position(|v| v == ai)?; let a = &f.axes[*ai];
            Some((k, mn.map(|v| crate::ot::f2(a.design_to_norm(v))).unwrap_or(-1.0), mx.map(|v| crate::ot::f2(a.design_to_norm(v))).unwrap_or(1.0)))
        }).collect()).collect(),
        subs: r.subs.clone() }).collect();
    (var, rules)
}

pub fn check_fonts(ctx: &Ctx, genome: &[u16]) -> CaseReport {
    let mut rep = CaseReport::default();
    let f = SynthFont::decode(genome, &profile());
    rep.key = f.hash();
    classify(&mut rep, &f);
    let (var, rules) = model_rules(&f);
    rep.sample = Some(json!({"font": describe(&f), "processing": if f.rules_processing_last { "last" } else { "first" }, "rules": rules.iter().map(|r| json!({"sets": r.sets, "subs": r.subs})).collect::<Vec<_>>()}));
    if ctx.dry { for (k, v) in crate::synth::ufo::render(&f) { rep.artifacts.push((k, v.into_bytes())); } return rep; }
    if rules.is_empty() { rep.discard = true; return rep; }
    rep.nontrivial = rules.len() >= 2 && overlaps(&rules);
    if rep.nontrivial { rep.class("overlapping-unequal-regions"); }
    let mut conflict = false;
    for (i, r) in rules.iter().enumerate() { for s in &rules[i + 1..] { for (a, b) in &r.subs { if s.subs.iter().any(|(x, y)| x == a && y != b) { conflict = true; } } } }
    if conflict { rep.class("same-input-different-output-in-two-rules"); } else { rep.class("conflict-free"); }
    rep.class(if f.rules_processing_last { "processing-last" } else { "processing-first" });
    let Some(b) = build(ctx, &mut rep, f, &BuildOpts::default()) else { return rep };
    let f = &b.font;
    let font = match Font::new(&b.bytes) { Ok(x) => x, Err(e) => { rep.fail("output-unparseable", e); attach_source(&mut rep, &b); return rep; } };
    let gids = match gid_map(&font) { Ok(m) => m, Err(e) => { rep.fail("post-names-unreadable", e); attach_source(&mut rep, &b); return rep; } };
    let layout = match Layout::new(&font) { Ok(l) => l, Err(e) => { rep.fail("layout-tables-unreadable", e); attach_source(&mut rep, &b); return rep; } };
    let feature = if f.rules_processing_last { "rclt" } else { "rvrn" };
    let inputs: BTreeSet<String> = rules.iter().flat_map(|r| r.subs.iter().map(|s| s.0.clone())).collect();
    let mut g = Gen::new(genome);
    let bounds: Vec<(f64, f64)> = var.iter().map(|ai| (if f.axes[*ai].d_below > 0.0 { -1.0 } else { 0.0 }, if f.axes[*ai].d_above > 0.0 { 1.0 } else { 0.0 })).collect();
    let pts = sample_points(&rules, &bounds, &mut g, if ctx.tier == crate::run::Tier::Quick { 600 } else { 3000 });
    'outer: for p in pts {
        let want = expected_at(&rules, &p);
        for script in ["DFLT", "latn"] {
            let lookups = if font.has(b"GSUB") { match layout.lookups_for(Tbl::Gsub, script, "dflt", &p, Some(&[feature])) { Ok(l) => l, Err(e) => { rep.fail("gsub-unreadable", e); break 'outer; } } } else { vec![] };
            let mut got: BTreeMap<String, String> = BTreeMap::new();
            for a in &inputs {
                let Some(&ga) = gids.get(a) else { rep.fail("rule-input-glyph-missing", a.clone()); break 'outer; };
                rep.evals += 1;
                let out = match layout.gsub_apply(&lookups, &[ga]) { Ok(v) => v, Err(e) => { rep.fail("gsub-evaluation-failed", e); break 'outer; } };
                if out.len() != 1 { rep.fail("conditional-substitution-changes-length", format!("at {p:?}: {a} -> {out:?}")); break 'outer; }
                let name = gids.iter().find(|(_, v)| **v == out[0]).map(|(k, _)| k.clone()).unwrap_or_else(|| format!("gid{}", out[0]));
                if name != *a { got.insert(a.clone(), name); }
            }
            if got != want {
                let sig = if got == expected_at(&merged(&rules), &p) { "precedence-lost-by-rule-merging" } else if got == expected_by_content_order(&rules, &p) { "precedence-lost-by-lookup-content-order" } else { "conditional-substitution-differs" };
                if sig != "conditional-substitution-differs" && rep.failures.iter().any(|f| f.signature == sig) { continue; }
                rep.fail(sig, format!("at {p:?} script {script} feature {feature}: the font substitutes {got:?}, the rules say {want:?}; rules {rules:?}"));
                if sig == "conditional-substitution-differs" { break 'outer; }
            }
        }
    }
    attach_source(&mut rep, &b);
    rep
}

pub fn parts() -> Vec<Part> {
    vec![
        Part { name: "overlay", genome_len: 1200, cases_quick: 10_000, cases_thorough: 300_000, threads: 16, max_shrink_iters: 1500, check: Box::new(check_overlay), remote: None },
        Part { name: "fonts", genome_len: 2400, cases_quick: 700, cases_thorough: 10_000, threads: 12, max_shrink_iters: 250, check: Box::new(check_fonts), remote: None },
    ]
}
pub const RULE: &str = "overlay: 1-8 rules (1 in 12 cases: 60-71 rules on narrow slabs, past the 64-bit rank word), 1-3 condition sets each, 1-3 axes, ranges on a quarter grid or arbitrary F2Dot14 values with positive width, substitutions from 3 inputs to 4 disjoint outputs (same-input conflicts allowed); overlay_feature_variations evaluated by first matching box at every point of the per-axis grid {each edge -/+ 2^-14, the edge itself unless it is where two conditions touch (upper edge of one = lower edge of another), midpoints between edges, -1, 0, 1} (all combinations up to 5000 points, else 5000 sampled) vs the rules folded in rule order. fonts: SynthFont with designspace <rules> (processing first / last, open-ended ranges, several condition sets) compiled; GSUB FeatureVariations interpreted at the same kind of sample points (first record whose condition set holds, substituted feature's lookups applied in lookup order) for DFLT and latn vs the rules. non-trivial = >= 2 rules whose regions overlap without being equal";
pub const ASSUMPTIONS: &[&str] = &["condition ranges have positive width (a zero-width range is a measure-zero region; overlay treats touching or degenerate ranges as not intersecting, as fontTools does)", "a coordinate where two conditions merely touch (upper edge of one = lower edge of another) is sampled only through its two neighbours (the statement names just inside / just outside; the touching point is a measure-zero set)", "rule inputs and outputs are disjoint glyph sets, so no rule's output is another rule's input"];
