use read_fonts::{FontRef, TableProvider, FontRead};
use read_fonts::tables::gpos::{PositionLookup, PairPos, PositionSubtables};
fn main() {
    let args: Vec<String> = std::env::args().collect();
    let input = fontc::Input::new(std::path::Path::new(&args[1])).unwrap();
    let bytes = fontc::generate_font(input.create_source().unwrap(), fontc::Options::default()).unwrap();
    let f = FontRef::new(&bytes).unwrap();
    let gpos = f.gpos().unwrap();
    let ll = gpos.lookup_list().unwrap();
    for (li, l) in ll.lookups().iter().enumerate() {
        let l = l.unwrap();
        if let PositionLookup::Pair(p) = l {
            for (si, st) in p.subtables().iter().enumerate() {
                if let Ok(PairPos::Format2(pp)) = st {
                    let data = pp.offset_data();
                    println!("lookup {li} subtable {si}: PairPosFormat2 len {} class1 {} class2 {}", data.len(), pp.class1_count(), pp.class2_count());
                    for (i, c1) in pp.class1_records().iter().enumerate() { let c1 = c1.unwrap();
                        for (j, c2) in c1.class2_records().iter().enumerate() { let c2 = c2.unwrap();
                            let v = c2.value_record1();
                            let dev = v.x_advance_device(data);
                            println!("  [{i}][{j}] xadv {:?} dev_off {:?} resolved {:?}", v.x_advance(), v.x_advance_device.get(), dev.map(|d| d.map(|_| "ok").map_err(|e| e.to_string())));
                        } }
                }
            }
        }
    }
    let _ = PositionSubtables::Pair;
}
