//! Runner: fans a part's cases over worker threads (each an independent proptest TestRunner
//! with a seed derived from VERIF_SEED), classifies cases, matches failures against
//! known_findings.json, shrinks, writes replay files and the evidence file.
use crate::genome::{fnv, fnv_str, GenomeStrategy};
use proptest::test_runner::{Config, RngAlgorithm, RngSeed, TestCaseError, TestError, TestRunner};
use serde_json::{json, Value};
use std::collections::{BTreeMap, HashSet};
use std::path::{Path, PathBuf};
use std::sync::atomic::{AtomicBool, AtomicU64, Ordering};
use std::sync::Mutex;
use std::time::Instant;

#[derive(Clone, Copy, PartialEq, Eq, Debug)]
pub enum Tier { Quick, Thorough }

#[derive(Clone)]
pub struct Ctx {
    pub prop: &'static str,
    pub tier: Tier,
    pub seed: u64,
    pub home: PathBuf,      // /verif
    pub out: PathBuf,       // where new replays and evidence go (default: home)
    pub repo: PathBuf,      // /repo (or mutant copy)
    pub work: PathBuf,      // scratch dir for this process
    pub strict: bool,       // replay mode
    pub in_child: bool,     // this process is a --serve worker
    /// generate the case and fill sample/artifacts but skip the oracle (used to describe a
    /// case whose evaluation killed the worker child)
    pub dry: bool,
}

#[derive(Clone, Debug)]
pub struct Failure { pub signature: String, pub detail: String }

#[derive(Default)]
pub struct CaseReport {
    pub failures: Vec<Failure>,
    pub nontrivial: bool,
    /// identity of the case for distinct counting (hash of the model, not of the genome)
    pub key: u64,
    pub classes: Vec<String>,
    pub sample: Option<Value>,
    /// number of elementary oracle evaluations in this case (glyph x location, pairs, ...)
    pub evals: u64,
    /// generator could not build a meaningful case (counted, not a pass)
    pub discard: bool,
    /// files to store beside case.json when the case fails (materialised source tree)
    pub artifacts: Vec<(String, Vec<u8>)>,
}

impl CaseReport {
    pub fn fail(&mut self, signature: impl Into<String>, detail: impl Into<String>) {
        self.failures.push(Failure { signature: signature.into(), detail: detail.into() });
    }
    pub fn class(&mut self, c: impl Into<String>) { self.classes.push(c.into()); }
}

pub type CheckFn = Box<dyn Fn(&Ctx, &[u16]) -> CaseReport + Sync + Send>;

pub struct Part {
    pub name: &'static str,
    pub genome_len: usize,
    pub cases_quick: u32,
    pub cases_thorough: u32,
    pub threads: usize,
    pub max_shrink_iters: u32,
    pub check: CheckFn,
    /// run each case in a persistent child process (crash / hang isolation)
    pub remote: Option<crate::remote::RemoteCfg>,
}

#[derive(Clone, Debug)]
pub struct Known { pub signature: String, pub what: String, pub status: String }

pub fn load_known(home: &Path, prop: &str) -> Vec<Known> {
    let p = home.join("known_findings.json");
    let Ok(txt) = std::fs::read_to_string(&p) else { return vec![] };
    let v: Value = serde_json::from_str(&txt).expect("known_findings.json must parse");
    v.as_array().cloned().unwrap_or_default().iter().filter_map(|e| {
        (e["property"].as_str() == Some(prop)).then(|| Known {
            signature: e["signature"].as_str().unwrap_or("").to_string(),
            what: e["what"].as_str().unwrap_or("").to_string(),
            status: e["status"].as_str().unwrap_or("known").to_string(),
        })
    }).collect()
}

#[derive(Default)]
struct Stats {
    cases: u64,
    evals: u64,
    discards: u64,
    nontrivial_keys: HashSet<u64>,
    all_keys: HashSet<u64>,
    classes: BTreeMap<String, u64>,
    samples: Vec<Value>,
    known_hits: BTreeMap<String, u64>,
}

pub struct Outcome {
    pub violations: Vec<(String, PathBuf)>,
    pub known_printed: Vec<String>,
    pub parts: Vec<Value>,
    pub cases: u64,
    pub evals: u64,
    pub nontrivial: u64,
    pub samples: Vec<Value>,
    pub classes: BTreeMap<String, u64>,
    pub discards: u64,
    pub excluded_known: u64,
}

thread_local! {
    pub static LAST_PANIC_FN: std::cell::RefCell<String> = const { std::cell::RefCell::new(String::new()) };
    pub static LAST_PANIC: std::cell::RefCell<String> = const { std::cell::RefCell::new(String::new()) };
}

pub fn install_panic_hook() {
    std::panic::set_hook(Box::new(|info| {
        let loc = info.location().map(|l| format!("{}:{}", l.file(), l.line())).unwrap_or_default();
        let msg = if let Some(s) = info.payload().downcast_ref::<&str>() { s.to_string() }
            else if let Some(s) = info.payload().downcast_ref::<String>() { s.clone() } else { "?".into() };
        // innermost frame of the code under test (function name, no line): names the site of the panic
        let bt = std::backtrace::Backtrace::force_capture().to_string();
        let mut func = String::new();
        let lines: Vec<&str> = bt.lines().collect();
        for w in lines.windows(2) {
            let (name, at) = (w[0].trim(), w[1].trim());
            let Some(path) = at.strip_prefix("at ") else { continue };
            if path.starts_with("/rustc/") || path.starts_with("./engine/") || path.contains("/engine/src/") { continue; }
            let file = path.split(':').next().unwrap_or(path);
            let file = file.rsplit_once("/src/").map(|(a, b)| format!("{}/{}", a.rsplit('/').next().unwrap_or(""), b)).unwrap_or(file.to_string());
            let name = name.split_once(": ").map(|(_, s)| s).unwrap_or(name);
            let name = name.split('<').next().unwrap_or(name);
            func = format!("{file}::{name}");
            break;
        }
        LAST_PANIC_FN.with(|p| *p.borrow_mut() = func);
        LAST_PANIC.with(|p| *p.borrow_mut() = format!("{msg} @ {loc}"));
        if std::env::var_os("VF_SHOW_PANICS").is_some() { eprintln!("panic: {msg} @ {loc}\n{bt}"); }
    }));
}

/// strip digits and quoted names so a panic signature names the site, not the data
pub fn normalize_sig(s: &str) -> String {
    let mut out = String::new();
    let mut last_hash = false;
    for ch in s.chars().take(160) {
        if ch.is_ascii_digit() { if !last_hash { out.push('#'); last_hash = true; } }
        else { out.push(ch); last_hash = false; }
    }
    out
}

pub fn run_check_caught(ctx: &Ctx, part: &Part, genome: &[u16]) -> CaseReport {
    if let (Some(cfg), false) = (part.remote, ctx.in_child) {
        return crate::remote::remote_check(ctx, part, cfg, genome);
    }
    run_check_local(ctx, part, genome)
}

pub fn run_check_local(ctx: &Ctx, part: &Part, genome: &[u16]) -> CaseReport {
    match std::panic::catch_unwind(std::panic::AssertUnwindSafe(|| (part.check)(ctx, genome))) {
        Ok(r) => r,
        Err(_) => {
            let msg = LAST_PANIC.with(|p| p.borrow().clone());
            let mut r = CaseReport::default();
            // strip the line number from the location so the signature survives edits
            let site = msg.rsplit_once(':').map(|(a, _)| a.to_string()).unwrap_or(msg.clone());
            r.fail(format!("panic-outside-job:{}", normalize_sig(&site)), msg);
            r
        }
    }
}

fn classify<'a>(known: &'a [Known], f: &Failure) -> Option<&'a Known> {
    known.iter().find(|k| k.status == "known" && k.signature == f.signature)
}

pub fn write_replay(ctx: &Ctx, part: &str, genome: &[u16], rep: &CaseReport, unknown: &[Failure]) -> PathBuf {
    let mut bytes = Vec::new();
    for w in genome { bytes.extend_from_slice(&w.to_le_bytes()); }
    let h = fnv(&bytes) ^ fnv_str(part);
    let dir = ctx.out.join("replays").join(ctx.prop).join(format!("{h:016x}"));
    let _ = std::fs::create_dir_all(&dir);
    let case = json!({
        "property": ctx.prop, "part": part, "seed": ctx.seed,
        "tier": if ctx.tier == Tier::Quick { "quick" } else { "thorough" },
        "genome": genome,
        "failures": unknown.iter().map(|f| json!({"signature": f.signature, "detail": f.detail})).collect::<Vec<_>>(),
        "sample": rep.sample,
    });
    let p = dir.join("case.json");
    std::fs::write(&p, serde_json::to_string_pretty(&case).unwrap()).expect("write replay");
    for (name, data) in &rep.artifacts {
        let fp = dir.join("source").join(name);
        if let Some(parent) = fp.parent() { let _ = std::fs::create_dir_all(parent); }
        let _ = std::fs::write(fp, data);
    }
    p
}

pub fn run_parts(ctx: &Ctx, parts: &[Part]) -> Outcome {
    let known = load_known(&ctx.home, ctx.prop);
    let mut out = Outcome { violations: vec![], known_printed: vec![], parts: vec![], cases: 0, evals: 0,
        nontrivial: 0, samples: vec![], classes: BTreeMap::new(), discards: 0, excluded_known: 0 };
    let mut nontrivial_all: HashSet<u64> = HashSet::new();
    for (pi, part) in parts.iter().enumerate() {
        let t0 = Instant::now();
        let total = if ctx.tier == Tier::Quick { part.cases_quick } else { part.cases_thorough };
        if total == 0 { continue; }
        let threads = part.threads.max(1).min(total as usize);
        let stats = Mutex::new(Stats::default());
        let stop = AtomicBool::new(false);
        let viol: Mutex<Vec<(String, PathBuf)>> = Mutex::new(vec![]);
        let done = AtomicU64::new(0);
        let keep_going = std::env::var_os("VF_KEEP_GOING").is_some();
        let survey: Mutex<BTreeMap<String, (String, PathBuf)>> = Mutex::new(BTreeMap::new());
        std::thread::scope(|s| {
            for w in 0..threads {
                let (stats, stop, viol, known, done, survey) = (&stats, &stop, &viol, &known, &done, &survey);
                let cases = total / threads as u32 + if (w as u32) < total % threads as u32 { 1 } else { 0 };
                std::thread::Builder::new().stack_size(64 << 20).spawn_scoped(s, move || {
                    let mut seed_bytes = [0u8; 32];
                    let sd = ctx.seed.wrapping_mul(0x9E3779B97F4A7C15) ^ ((pi as u64) << 48) ^ ((w as u64) << 32) ^ fnv_str(ctx.prop);
                    for (i, b) in seed_bytes.iter_mut().enumerate() { *b = (sd.rotate_left((i * 7) as u32) >> (i % 8)) as u8 ^ i as u8; }
                    let cfg = Config { cases, failure_persistence: None, max_shrink_iters: part.max_shrink_iters,
                        rng_algorithm: RngAlgorithm::ChaCha, rng_seed: RngSeed::Fixed(sd), ..Config::default() };
                    let _ = seed_bytes;
                    let mut runner = TestRunner::new(cfg);
                    let shrinking = std::cell::Cell::new(false);
                    let shrink_started: std::cell::Cell<Option<Instant>> = std::cell::Cell::new(None);
                    let last_fail: std::cell::RefCell<Option<(Vec<u16>, CaseReport, Vec<Failure>)>> = std::cell::RefCell::new(None);
                    let res = runner.run(&GenomeStrategy(part.genome_len), |genome| {
                        if stop.load(Ordering::Relaxed) && !shrinking.get() { return Ok(()); }
                        // shrinking is best effort under a wall budget; it never affects the verdict
                        if let Some(t) = shrink_started.get() { if t.elapsed().as_secs() > 180 { return Ok(()); } }
                        let rep = run_check_caught(ctx, part, &genome);
                        let (kn, unk): (Vec<_>, Vec<_>) = rep.failures.iter().cloned().partition(|f| classify(known, f).is_some());
                        if !shrinking.get() {
                            let mut st = stats.lock().unwrap();
                            st.cases += 1;
                            st.evals += rep.evals.max(1);
                            if rep.discard { st.discards += 1; }
                            else {
                                st.all_keys.insert(rep.key);
                                if rep.nontrivial { st.nontrivial_keys.insert(rep.key); }
                            }
                            for c in &rep.classes { *st.classes.entry(c.clone()).or_default() += 1; }
                            for f in &kn { *st.known_hits.entry(f.signature.clone()).or_default() += 1; }
                            if st.samples.len() < 6 && !rep.discard { if let Some(s) = &rep.sample { if rep.nontrivial || st.cases > 20 { st.samples.push(s.clone()); } } }
                            done.fetch_add(1, Ordering::Relaxed);
                        }
                        if unk.is_empty() { Ok(()) } else if keep_going {
                            // survey mode: record the first case of every distinct unknown signature, do not stop or shrink
                            let mut seen = survey.lock().unwrap();
                            if !seen.contains_key(&unk[0].signature) && seen.len() < 200 {
                                let path = write_replay(ctx, part.name, &genome, &rep, &unk);
                                seen.insert(unk[0].signature.clone(), (unk[0].detail.clone(), path));
                            }
                            Ok(())
                        } else {
                            shrinking.set(true);
                            if shrink_started.get().is_none() { shrink_started.set(Some(Instant::now())); }
                            stop.store(true, Ordering::Relaxed);
                            let reason = unk[0].signature.clone();
                            *last_fail.borrow_mut() = Some((genome.clone(), rep, unk));
                            Err(TestCaseError::fail(reason))
                        }
                    });
                    if let Err(TestError::Fail(_, minimal)) = res {
                        // re-run the minimal case to get its report (last_fail may hold a later, passing-adjacent one)
                        let rep = run_check_caught(ctx, part, &minimal);
                        let unk: Vec<_> = rep.failures.iter().cloned().filter(|f| classify(known, f).is_none()).collect();
                        let (g, rep, unk) = if unk.is_empty() {
                            last_fail.borrow_mut().take().expect("a failing case was recorded")
                        } else { (minimal, rep, unk) };
                        let path = write_replay(ctx, part.name, &g, &rep, &unk);
                        viol.lock().unwrap().push((unk[0].signature.clone() + " :: " + &unk[0].detail, path));
                    } else if let Err(TestError::Abort(r)) = res {
                        eprintln!("proptest aborted in {}: {r}", part.name);
                    }
                }).expect("spawn");
            }
        });
        for (sig, (detail, path)) in survey.into_inner().unwrap() { viol.lock().unwrap().push((format!("{sig} :: {detail}"), path)); }
        let st = stats.into_inner().unwrap();
        for (sig, n) in &st.known_hits {
            let k = known.iter().find(|k| &k.signature == sig).unwrap();
            let line = format!("KNOWN-FINDING: property={} {} [{}] ({} cases in part {})", ctx.prop, k.what, sig, n, part.name);
            println!("{line}");
            out.known_printed.push(line);
            out.excluded_known += n;
        }
        for (d, p) in viol.into_inner().unwrap() {
            println!("VIOLATION property={} replay={}", ctx.prop, p.display());
            println!("  part={} {}", part.name, d.chars().take(600).collect::<String>());
            out.violations.push((d, p));
        }
        out.parts.push(json!({"part": part.name, "cases": st.cases, "evaluations": st.evals,
            "distinct": st.all_keys.len(), "distinct_nontrivial": st.nontrivial_keys.len(),
            "discarded": st.discards, "classes": st.classes, "wall_s": t0.elapsed().as_secs_f64()}));
        out.cases += st.cases; out.evals += st.evals; out.discards += st.discards;
        for k in &st.nontrivial_keys { nontrivial_all.insert(*k ^ ((pi as u64) << 56)); }
        for (c, n) in st.classes { *out.classes.entry(format!("{}:{}", part.name, c)).or_default() += n; }
        for s in st.samples.into_iter().take(4) { out.samples.push(json!({"part": part.name, "case": s})); }
        eprintln!("[{}] part {} done: {} cases in {:.1}s", ctx.prop, part.name, out.parts.last().unwrap()["cases"], t0.elapsed().as_secs_f64());
    }
    out.nontrivial = nontrivial_all.len() as u64;
    out
}

pub fn write_evidence(ctx: &Ctx, out: &Outcome, rule: &str, assumptions: &[&str], wall: f64, extra: Value) {
    let ev = json!({
        "property_id": ctx.prop,
        "tier": if ctx.tier == Tier::Quick { "quick" } else { "thorough" },
        "seed": ctx.seed,
        "level": "exploration",
        "coverage": {
            "evaluations": out.evals,
            "cases": out.cases,
            "distinct_nontrivial": out.nontrivial,
            "rule": rule,
            "samples": out.samples,
            "class_histogram": out.classes,
            "parts": out.parts,
            "discarded_cases": out.discards,
            "excluded_by_known_finding": out.excluded_known,
            "known_findings_reported": out.known_printed,
            "extra": extra,
        },
        "assumptions": assumptions,
        "wall_s": wall,
        "violations": out.violations.len(),
    });
    let p = ctx.out.join("evidence").join(format!("{}.json", ctx.prop));
    let _ = std::fs::create_dir_all(p.parent().unwrap());
    std::fs::write(p, serde_json::to_string_pretty(&ev).unwrap()).expect("write evidence");
}

/// Replay tier / --replay: run one stored case in strict mode.
pub type LiteralFn = fn(&Ctx, &Value) -> CaseReport;

pub fn replay_file(ctx: &Ctx, parts: &[Part], literal: Option<LiteralFn>, path: &Path) -> (Vec<Failure>, Vec<Failure>) {
    let v: Value = serde_json::from_str(&std::fs::read_to_string(path).expect("read replay")).expect("parse replay");
    let pname = v["part"].as_str().unwrap_or("");
    if pname == "literal" {
        let f = literal.expect("property has no literal replay support");
        let known = load_known(&ctx.home, ctx.prop);
        // literal cases run in a child too (they may crash the process): re-exec self
        let rep = if ctx.in_child || !parts.iter().any(|p| p.remote.is_some()) { f(ctx, &v) } else { literal_in_child(ctx, path) };
        return rep.failures.into_iter().partition(|f| classify(&known, f).is_some());
    }
    let genome: Vec<u16> = v["genome"].as_array().map(|a| a.iter().map(|x| x.as_u64().unwrap_or(0) as u16).collect()).unwrap_or_default();
    let part = parts.iter().find(|p| p.name == pname).unwrap_or_else(|| panic!("unknown part {pname}"));
    let known = load_known(&ctx.home, ctx.prop);
    let rep = run_check_caught(ctx, part, &genome);
    rep.failures.into_iter().partition(|f| classify(&known, f).is_some())
}

fn literal_in_child(ctx: &Ctx, path: &Path) -> CaseReport {
    let exe = std::env::current_exe().expect("exe");
    let out = std::process::Command::new("timeout").arg("-k").arg("5").arg("300").arg(exe).arg(ctx.prop).arg("--literal").arg(path)
        .env("VF_HOME", &ctx.home).env("VF_REPO_ROOT", &ctx.repo).output().expect("spawn literal child");
    use std::os::unix::process::ExitStatusExt;
    let mut rep = CaseReport::default();
    let stdout = String::from_utf8_lossy(&out.stdout);
    if let Some(line) = stdout.lines().rev().find(|l| l.starts_with('{')) {
        if let Ok(v) = serde_json::from_str::<Value>(line) { return crate::remote::report_from_json(&v); }
    }
    match (out.status.signal(), out.status.code()) {
        (Some(sig), _) => rep.fail(format!("process-died:signal-{sig}"), "literal replay child died"),
        (_, Some(124)) | (_, Some(137)) => rep.fail("hang", "literal replay child exceeded 300 s"),
        (_, code) => rep.fail(format!("process-died:exit-{}", code.unwrap_or(-1)), "literal replay child produced no report"),
    }
    rep
}
