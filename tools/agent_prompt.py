#!/usr/bin/env python3
"""Prints the prompt given to an independent sub-agent that seeds a property-breaking change.
The agent sees only the property text and its own scratch worktree (nothing from /verif)."""
import json, sys, os
HERE = os.path.dirname(os.path.dirname(os.path.abspath(__file__)))
pid = sys.argv[1]
wt = sys.argv[2]
p = next(json.loads(l) for l in open(os.path.join(HERE, 'properties.jsonl')) if json.loads(l)['id'] == pid)
print(f"""You are working in a scratch git worktree of the googlefonts/fontc repository (a Rust font compiler) at {wt}. It is yours alone; work ONLY inside it (never touch /repo or /verif, never read /verif). The sandbox has no network; build with `cargo ... --offline`. The machine is shared with other builds: pass `-j 6` to cargo.

Here is a semantic property that fontc is supposed to satisfy:

  id: {p['id']}
  title: {p['title']}
  statement: {p['statement']}
  quantified over: {p['quantifier']['text']}
  code anchors: {', '.join(p['anchors']['files'])}
  mechanisms: {'; '.join(m['name'] + ' (' + m['where'] + ')' for m in p['anchors']['mechanism'])}

Your task: produce TWO independent, realistic changes (call them A and B) to the fontc source code, each of which BREAKS this property while the workspace still compiles and the existing test suite still passes. Think of the kind of regression a well-meaning contributor could introduce (a refactor, an "optimisation", a wrong simplification, a boundary slip, an ordering change, a cache, a dropped special case) - not sabotage with an obviously silly look, and not a change to test files. Each change must need something SPECIFIC to manifest - an unusual but valid input shape, a particular combination of options, a multi-step sequence, a particular interleaving or fault point, or two cooperating sites that each look fine alone - so that ordinary use and the existing tests do not expose it at once. A and B should have different root causes in different functions (preferably different files).

For each change deliver, under {wt}/seed_out/A/ and {wt}/seed_out/B/:
  * patch.diff - `git diff` of the change against the worktree's HEAD (source files only; must apply with `git apply` to a clean checkout of HEAD). Do not include the demonstration in patch.diff.
  * a demonstration: preferably an integration test file (a new file for <crate>/tests/, using only the existing dependencies and dev-dependencies of that crate; put a copy in seed_out/<X>/ and say in notes.md where it must be placed and the exact cargo command to run it), which PASSES on the unchanged HEAD and FAILS with the change applied. The demonstration must show the property itself failing (observable behaviour through public APIs or the fontc binary / output font), not just that an internal function changed.
  * notes.md - what the change is, which behaviour of the property it breaks, what exactly it needs in order to manifest, and the commands you ran with their results.

You must verify yourself: (1) with the change applied, `cargo test --workspace --offline --no-fail-fast -j 6` shows no failures beyond the ones that also fail on unchanged HEAD (on the UNMODIFIED checkout exactly three fea-rs tests fail because the `ttx` executable is not installed: tests::compile::fonttools_tests, import_resolution, should_pass - ignore those three); (2) the demonstration passes on unchanged HEAD and fails with the change. When you are done leave the worktree CLEAN (git checkout -- . ; remove the demo test files from the crates) with everything you deliver under seed_out/. Keep the built target/ directory. Report back briefly: for A and B, one paragraph each: what changed, what it needs to manifest, and the verification results.""")
