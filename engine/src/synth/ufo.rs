//! Writes a SynthFont as designspace + UFO3 trees (hand-written XML so that the text is under
//! our control for the reformatting properties).
use super::model::*;
use std::collections::BTreeMap;
use std::fmt::Write as _;
use std::path::{Path, PathBuf};

pub fn num(v: f64) -> String { if v == v.trunc() && v.abs() < 1e15 { format!("{}", v as i64) } else { format!("{v}") } }

fn esc(s: &str) -> String { s.replace('&', "&amp;").replace('<', "&lt;").replace('>', "&gt;").replace('"', "&quot;") }

#[derive(Clone, Debug)]
pub enum Pl { S(String), I(i64), R(f64), B(bool), A(Vec<Pl>), D(Vec<(String, Pl)>) }

fn pl_write(out: &mut String, v: &Pl, ind: usize) {
    let pad = "  ".repeat(ind);
    match v {
        Pl::S(s) => { let _ = writeln!(out, "{pad}<string>{}</string>", esc(s)); }
        Pl::I(i) => { let _ = writeln!(out, "{pad}<integer>{i}</integer>"); }
        Pl::R(r) => { if *r == r.trunc() { let _ = writeln!(out, "{pad}<integer>{}</integer>", *r as i64); } else { let _ = writeln!(out, "{pad}<real>{r}</real>"); } }
        Pl::B(b) => { let _ = writeln!(out, "{pad}<{}/>", if *b { "true" } else { "false" }); }
        Pl::A(a) => { let _ = writeln!(out, "{pad}<array>"); for x in a { pl_write(out, x, ind + 1); } let _ = writeln!(out, "{pad}</array>"); }
        Pl::D(d) => { let _ = writeln!(out, "{pad}<dict>"); for (k, x) in d { let _ = writeln!(out, "{pad}  <key>{}</key>", esc(k)); pl_write(out, x, ind + 1); } let _ = writeln!(out, "{pad}</dict>"); }
    }
}

pub fn plist(v: &Pl) -> String {
    let mut s = String::from("<?xml version=\"1.0\" encoding=\"UTF-8\"?>\n<!DOCTYPE plist PUBLIC \"-//Apple//DTD PLIST 1.0//EN\" \"http://www.apple.com/DTDs/PropertyList-1.0.dtd\">\n<plist version=\"1.0\">\n");
    pl_write(&mut s, v, 0);
    s.push_str("</plist>\n");
    s
}

pub fn glif(name: &str, codepoints: &[u32], src: &GlyphSource) -> String {
    let mut s = String::from("<?xml version=\"1.0\" encoding=\"UTF-8\"?>\n");
    let _ = writeln!(s, "<glyph name=\"{}\" format=\"2\">", esc(name));
    match src.height { Some(h) => { let _ = writeln!(s, "  <advance width=\"{}\" height=\"{}\"/>", num(src.advance), num(h)); } None => { let _ = writeln!(s, "  <advance width=\"{}\"/>", num(src.advance)); } }
    for cp in codepoints { let _ = writeln!(s, "  <unicode hex=\"{cp:04X}\"/>"); }
    for (n, x, y) in &src.anchors { let _ = writeln!(s, "  <anchor name=\"{}\" x=\"{}\" y=\"{}\"/>", esc(n), num(*x), num(*y)); }
    if !src.contours.is_empty() || !src.comps.is_empty() {
        s.push_str("  <outline>\n");
        for c in &src.contours {
            s.push_str("    <contour>\n");
            for p in &c.pts {
                let t = match p.typ { PtType::Move => " type=\"move\"", PtType::Line => " type=\"line\"", PtType::Off => "", PtType::Curve => " type=\"curve\"", PtType::QCurve => " type=\"qcurve\"" };
                let _ = writeln!(s, "      <point x=\"{}\" y=\"{}\"{t}/>", num(p.x), num(p.y));
            }
            s.push_str("    </contour>\n");
        }
        for c in &src.comps {
            let _ = write!(s, "    <component base=\"{}\"", esc(&c.base));
            let names = ["xScale", "xyScale", "yxScale", "yScale", "xOffset", "yOffset"];
            let defaults = [1.0, 0.0, 0.0, 1.0, 0.0, 0.0];
            for i in 0..6 { if c.xf[i] != defaults[i] { let _ = write!(s, " {}=\"{}\"", names[i], num(c.xf[i])); } }
            s.push_str("/>\n");
        }
        s.push_str("  </outline>\n");
    }
    s.push_str("</glyph>\n");
    s
}

pub fn fontinfo(f: &SynthFont, info: &FontInfo) -> String {
    let mut d: Vec<(String, Pl)> = vec![("unitsPerEm".into(), Pl::I(f.upem as i64))];
    let mut s = |k: &str, v: &Option<String>| { if let Some(v) = v { d.push((k.into(), Pl::S(v.clone()))); } };
    s("familyName", &info.family); s("styleName", &info.style); s("styleMapFamilyName", &info.style_map_family);
    s("styleMapStyleName", &info.style_map_style.map(String::from));
    s("openTypeNamePreferredFamilyName", &info.preferred_family); s("openTypeNamePreferredSubfamilyName", &info.preferred_subfamily);
    s("postscriptFontName", &info.postscript_font_name);
    if let Some(v) = info.version_major { d.push(("versionMajor".into(), Pl::I(v))); }
    if let Some(v) = info.version_minor { d.push(("versionMinor".into(), Pl::I(v))); }
    let mut r = |k: &str, v: &Option<f64>| { if let Some(v) = v { d.push((k.into(), Pl::R(*v))); } };
    r("ascender", &info.ascender); r("descender", &info.descender); r("xHeight", &info.x_height); r("capHeight", &info.cap_height); r("italicAngle", &info.italic_angle);
    for (k, v) in &info.metrics { d.push((k.to_string(), Pl::R(*v))); }
    if !info.name_records.is_empty() { d.push(("openTypeNameRecords".into(), Pl::A(info.name_records.iter().map(|(id, t)| Pl::D(vec![("nameID".into(), Pl::I(*id as i64)), ("platformID".into(), Pl::I(3)), ("encodingID".into(), Pl::I(1)), ("languageID".into(), Pl::I(0x409)), ("string".into(), Pl::S(t.clone()))])).collect()))); }
    if let Some(r) = &info.os2_unicode_ranges { d.push(("openTypeOS2UnicodeRanges".into(), Pl::A(r.iter().map(|x| Pl::I(*x as i64)).collect()))); }
    if let Some(r) = &info.os2_codepage_ranges { d.push(("openTypeOS2CodePageRanges".into(), Pl::A(r.iter().map(|x| Pl::I(*x as i64)).collect()))); }
    plist(&Pl::D(d))
}

pub fn designspace(f: &SynthFont) -> String {
    let mut s = String::from("<?xml version='1.0' encoding='UTF-8'?>\n<designspace format=\"4.1\">\n  <axes>\n");
    for a in &f.axes {
        let _ = write!(s, "    <axis tag=\"{}\" name=\"{}\" minimum=\"{}\" maximum=\"{}\" default=\"{}\"", a.tag, esc(&a.name), num(a.u_min()), num(a.u_max()), num(a.u_default()));
        if a.hidden { s.push_str(" hidden=\"1\""); }
        if a.map.is_none() && a.label.is_none() && a.other_labels.is_empty() { s.push_str("/>\n"); continue; }
        s.push_str(">\n");
        for (lang, l) in &a.other_labels { let _ = writeln!(s, "      <labelname xml:lang=\"{lang}\">{}</labelname>", esc(l)); }
        if let Some(l) = &a.label { let _ = writeln!(s, "      <labelname xml:lang=\"en\">{}</labelname>", esc(l)); }
        if let Some(m) = &a.map { for (u, d) in m { let _ = writeln!(s, "      <map input=\"{}\" output=\"{}\"/>", num(*u), num(*d)); } }
        s.push_str("    </axis>\n");
    }
    s.push_str("  </axes>\n");
    if !f.rules.is_empty() {
        let _ = writeln!(s, "  <rules processing=\"{}\">", if f.rules_processing_last { "last" } else { "first" });
        for r in &f.rules {
            let _ = writeln!(s, "    <rule name=\"{}\">", esc(&r.name));
            for cs in &r.condition_sets {
                s.push_str("      <conditionset>\n");
                for (ai, mn, mx) in cs {
                    let _ = write!(s, "        <condition name=\"{}\"", esc(&f.axes[*ai].name));
                    if let Some(v) = mn { let _ = write!(s, " minimum=\"{}\"", num(*v)); }
                    if let Some(v) = mx { let _ = write!(s, " maximum=\"{}\"", num(*v)); }
                    s.push_str("/>\n");
                }
                s.push_str("      </conditionset>\n");
            }
            for (a, b) in &r.subs { let _ = writeln!(s, "      <sub name=\"{}\" with=\"{}\"/>", esc(a), esc(b)); }
            s.push_str("    </rule>\n");
        }
        s.push_str("  </rules>\n");
    }
    s.push_str("  <sources>\n");
    for (si, src) in f.sources.iter().enumerate() {
        let _ = write!(s, "    <source filename=\"{}\" name=\"{}\"", esc(&src.ufo), esc(&src.name));
        if let Some(l) = &src.layer { let _ = write!(s, " layer=\"{}\"", esc(l)); }
        if let Some(v) = &src.info.family { let _ = write!(s, " familyname=\"{}\"", esc(v)); }
        if let Some(v) = &src.info.style { let _ = write!(s, " stylename=\"{}\"", esc(v)); }
        s.push_str(">\n      <location>\n");
        for (a, d) in f.axes.iter().zip(f.design_loc(si)) { let _ = writeln!(s, "        <dimension name=\"{}\" xvalue=\"{}\"/>", esc(&a.name), num(d)); }
        s.push_str("      </location>\n    </source>\n");
    }
    s.push_str("  </sources>\n");
    if !f.instances.is_empty() {
        s.push_str("  <instances>\n");
        for inst in &f.instances {
            s.push_str("    <instance");
            if let Some(v) = &inst.name { let _ = write!(s, " name=\"{}\"", esc(v)); }
            if let Some(v) = &inst.family { let _ = write!(s, " familyname=\"{}\"", esc(v)); }
            if let Some(v) = &inst.style { let _ = write!(s, " stylename=\"{}\"", esc(v)); }
            if let Some(v) = &inst.ps_name { let _ = write!(s, " postscriptfontname=\"{}\"", esc(v)); }
            s.push_str(">\n      <location>\n");
            let all_default = inst.norm.iter().all(|n| *n == 0.0);
            for (i, (a, n)) in f.axes.iter().zip(&inst.norm).enumerate() {
                // keep at least one dimension (the reader requires one)
                if inst.omit_default_dims && *n == 0.0 && !(all_default && i == 0) { continue; }
                let _ = writeln!(s, "        <dimension name=\"{}\" xvalue=\"{}\"/>", esc(&a.name), num(a.norm_to_design(*n)));
            }
            s.push_str("      </location>\n    </instance>\n");
        }
        s.push_str("  </instances>\n");
    }
    let lib = ds_lib(f);
    if !lib.is_empty() {
        s.push_str("  <lib>\n");
        let mut body = String::new();
        pl_write(&mut body, &Pl::D(lib), 2);
        s.push_str(&body);
        s.push_str("  </lib>\n");
    }
    s.push_str("</designspace>\n");
    s
}

fn ds_lib(f: &SynthFont) -> Vec<(String, Pl)> {
    let mut d = vec![];
    if !f.skip_export.is_empty() { d.push(("public.skipExportGlyphs".to_string(), Pl::A(f.skip_export.iter().map(|s| Pl::S(s.clone())).collect()))); }
    d
}

pub fn ufo_lib(f: &SynthFont, is_default: bool) -> Vec<(String, Pl)> {
    let mut d = vec![];
    if is_default {
        if let Some(o) = &f.glyph_order { d.push(("public.glyphOrder".to_string(), Pl::A(o.iter().map(|s| Pl::S(s.clone())).collect()))); }
        if !f.skip_export.is_empty() { d.push(("public.skipExportGlyphs".to_string(), Pl::A(f.skip_export.iter().map(|s| Pl::S(s.clone())).collect()))); }
        if let Some(p) = &f.ps_names { d.push(("public.postscriptNames".to_string(), Pl::D(p.iter().map(|(k, v)| (k.clone(), Pl::S(v.clone()))).collect()))); }
        if f.categories_explicit {
            let cats: Vec<(String, Pl)> = f.glyphs.iter().filter_map(|g| g.category.map(|c| (g.name.clone(), Pl::S(c.to_string())))).collect();
            d.push(("public.openTypeCategories".to_string(), Pl::D(cats)));
        }
        if !f.lib_filters.is_empty() {
            d.push(("com.github.googlei18n.ufo2ft.filters".to_string(), Pl::A(f.lib_filters.iter().map(|n| Pl::D(vec![("name".to_string(), Pl::S(n.to_string()))])).collect())));
        }
    }
    d
}

/// All files of the source tree, relative path -> contents
pub fn render(f: &SynthFont) -> BTreeMap<String, String> {
    let mut out = BTreeMap::new();
    out.insert("font.designspace".to_string(), designspace(f));
    // group sources by UFO dir
    let mut ufos: BTreeMap<String, Vec<usize>> = BTreeMap::new();
    for (si, s) in f.sources.iter().enumerate() { ufos.entry(s.ufo.clone()).or_default().push(si); }
    for (ufo, sis) in &ufos {
        let main = *sis.iter().find(|si| f.sources[**si].layer.is_none()).expect("every UFO has a full master");
        out.insert(format!("{ufo}/metainfo.plist"), plist(&Pl::D(vec![("creator".into(), Pl::S("vf".into())), ("formatVersion".into(), Pl::I(3))])));
        out.insert(format!("{ufo}/fontinfo.plist"), fontinfo(f, &f.sources[main].info));
        let lib = ufo_lib(f, main == 0);
        out.insert(format!("{ufo}/lib.plist"), plist(&Pl::D(lib)));
        let mut layers = vec![Pl::A(vec![Pl::S("public.default".into()), Pl::S("glyphs".into())])];
        for si in sis {
            let (dir, _lname) = match &f.sources[*si].layer { None => ("glyphs".to_string(), None), Some(l) => (format!("glyphs.{l}"), Some(l.clone())) };
            if let Some(l) = &f.sources[*si].layer { layers.push(Pl::A(vec![Pl::S(l.clone()), Pl::S(dir.clone())])); }
            let mut contents = vec![];
            for (gi, g) in f.glyphs.iter().enumerate() {
                if let Some(src) = g.sources.get(si) {
                    let file = format!("g{gi}.glif");
                    out.insert(format!("{ufo}/{dir}/{file}"), glif(&g.name, &g.codepoints, src));
                    contents.push((g.name.clone(), Pl::S(file)));
                }
            }
            out.insert(format!("{ufo}/{dir}/contents.plist"), plist(&Pl::D(contents)));
        }
        out.insert(format!("{ufo}/layercontents.plist"), plist(&Pl::A(layers)));
        if let Some(k) = &f.sources[main].kerning {
            out.insert(format!("{ufo}/groups.plist"), plist(&Pl::D(k.groups.iter().map(|(n, m)| (n.clone(), Pl::A(m.iter().map(|x| Pl::S(x.clone())).collect()))).collect())));
            let mut firsts: BTreeMap<String, Vec<(String, Pl)>> = BTreeMap::new();
            for ((a, b), v) in &k.pairs { firsts.entry(a.clone()).or_default().push((b.clone(), Pl::R(*v))); }
            out.insert(format!("{ufo}/kerning.plist"), plist(&Pl::D(firsts.into_iter().map(|(a, v)| (a, Pl::D(v))).collect())));
        }
        if let Some(fea) = &f.features { out.insert(format!("{ufo}/features.fea"), fea.clone()); }
    }
    out
}

pub fn write_tree(dir: &Path, files: &BTreeMap<String, String>) -> std::io::Result<PathBuf> {
    for (rel, text) in files {
        let p = dir.join(rel);
        if let Some(parent) = p.parent() { std::fs::create_dir_all(parent)?; }
        std::fs::write(p, text)?;
    }
    // a design without axes is a lone UFO (norad rejects a designspace location without dimensions)
    if files.contains_key("font.designspace") && !files["font.designspace"].contains("<axis ") { return Ok(dir.join("M0.ufo")); }
    Ok(dir.join("font.designspace"))
}
