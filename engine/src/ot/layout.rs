//! Independent OpenType layout interpreter: script/language/feature resolution (with
//! FeatureVariations), GSUB types 1-6, GPOS types 1, 2 (applied), 4, 5, 6 (queried), lookup
//! flags and mark filtering, Device/VariationIndex deltas through the GDEF ItemVariationStore
//! (own evaluator, unrounded). Table parsing is read-fonts; coverage and class lookups are
//! linear scans over the table contents (no reliance on sortedness).
use super::Font;
use read_fonts::tables::gpos::{AnchorTable, PairPos, PositionSubtables, SinglePos, ValueRecord};
use read_fonts::tables::gsub::{SingleSubst, SubstitutionSubtables};
use read_fonts::tables::layout::{
    ChainedSequenceContext, ClassDef, Condition, CoverageTable, DeviceOrVariationIndex, FeatureList, FeatureVariations, ScriptList, SequenceContext, SequenceLookupRecord,
};
use read_fonts::tables::variations::ItemVariationStore;
use read_fonts::{FontData, ReadError, TableProvider};
use std::collections::{BTreeMap, BTreeSet};

#[derive(Clone, Copy, PartialEq, Eq, Debug)]
pub enum Tbl { Gsub, Gpos }

#[derive(Clone, Copy, Debug, Default, PartialEq)]
pub struct Pos { pub x_place: f64, pub y_place: f64, pub x_adv: f64, pub y_adv: f64 }

pub struct Layout<'a> {
    pub font: &'a Font<'a>,
    pub glyph_class: BTreeMap<u16, u16>,
    pub mark_attach: BTreeMap<u16, u16>,
    pub mark_sets: Vec<BTreeSet<u16>>,
    pub ivs: Option<ItemVariationStore<'a>>,
    /// largest sum of region scalars seen by device_delta since it was last reset (rounding bound of the caller)
    pub ssum: std::cell::Cell<f64>,
    /// smallest number of regions referenced by a delta set evaluated since the last reset (usize::MAX = none evaluated)
    pub nreg: std::cell::Cell<usize>,
}

fn e<T>(r: Result<T, ReadError>, what: &str) -> Result<T, String> { r.map_err(|x| format!("{what}: {x}")) }

pub fn cov_index(cov: &CoverageTable, gid: u16) -> Option<usize> { cov.iter().position(|g| g.to_u16() == gid) }
pub fn cov_glyphs(cov: &CoverageTable) -> Vec<u16> { cov.iter().map(|g| g.to_u16()).collect() }
pub fn class_of(cd: &ClassDef, gid: u16) -> u16 { cd.iter().find(|(g, _)| g.to_u16() == gid).map(|(_, c)| c).unwrap_or(0) }

struct Flags { ignore_base: bool, ignore_lig: bool, ignore_marks: bool, mark_attach_type: u16, filter_set: Option<u16> }

#[derive(Clone, Debug)]
pub struct MarkAttach { pub lookup: u16, pub subtable: usize, pub base: (f64, f64), pub mark: (f64, f64) }

impl<'a> Layout<'a> {
    pub fn reset_bounds(&self) { self.ssum.set(0.0); self.nreg.set(usize::MAX); }
    /// rounding bound of the values evaluated since the last reset, for a variation model with `n_regions` non-default masters:
    /// 0.5 per unit of active scalar, plus 0.5 for every region that was optimised out of the store (its delta rounded to 0)
    pub fn rounding_bound(&self, n_regions: usize) -> f64 { let listed = if self.nreg.get() == usize::MAX { 0 } else { self.nreg.get() }; 0.5 * (self.ssum.get() + n_regions.saturating_sub(listed) as f64) }
    pub fn new(font: &'a Font<'a>) -> Result<Self, String> {
        let mut l = Layout { font, glyph_class: BTreeMap::new(), mark_attach: BTreeMap::new(), mark_sets: vec![], ivs: None, ssum: std::cell::Cell::new(0.0), nreg: std::cell::Cell::new(usize::MAX) };
        if let Ok(gdef) = font.f.gdef() {
            if let Some(cd) = gdef.glyph_class_def() { for (g, c) in e(cd, "GDEF glyph classes")?.iter() { l.glyph_class.insert(g.to_u16(), c); } }
            if let Some(cd) = gdef.mark_attach_class_def() { for (g, c) in e(cd, "GDEF mark attach classes")?.iter() { l.mark_attach.insert(g.to_u16(), c); } }
            if let Some(ms) = gdef.mark_glyph_sets_def() { for c in e(ms, "GDEF mark glyph sets")?.coverages().iter() { l.mark_sets.push(cov_glyphs(&e(c, "mark glyph set coverage")?).into_iter().collect()); } }
            if let Some(ivs) = gdef.item_var_store() { l.ivs = Some(e(ivs, "GDEF var store")?); }
        }
        Ok(l)
    }
    pub fn class(&self, gid: u16) -> u16 { self.glyph_class.get(&gid).copied().unwrap_or(0) }

    pub fn device_delta(&self, dev: Option<Result<DeviceOrVariationIndex<'a>, ReadError>>, coords: &[f64]) -> Result<f64, String> {
        match dev {
            None => Ok(0.0),
            Some(d) => match e(d, "device table")? {
                DeviceOrVariationIndex::VariationIndex(v) => {
                    if coords.is_empty() { return Ok(0.0); }
                    let ivs = self.ivs.as_ref().ok_or("VariationIndex device but GDEF has no ItemVariationStore")?;
                    let (d, s, n) = Font::ivs_delta_sn(ivs, v.delta_set_outer_index(), v.delta_set_inner_index(), coords)?;
                    if s > self.ssum.get() { self.ssum.set(s); }
                    if n < self.nreg.get() { self.nreg.set(n); }
                    Ok(d)
                }
                DeviceOrVariationIndex::Device(_) => Ok(0.0),
            },
        }
    }
    fn value(&self, v: &ValueRecord, data: FontData<'a>, coords: &[f64]) -> Result<Pos, String> {
        Ok(Pos {
            x_place: v.x_placement().unwrap_or(0) as f64 + self.device_delta(v.x_placement_device(data), coords)?,
            y_place: v.y_placement().unwrap_or(0) as f64 + self.device_delta(v.y_placement_device(data), coords)?,
            x_adv: v.x_advance().unwrap_or(0) as f64 + self.device_delta(v.x_advance_device(data), coords)?,
            y_adv: v.y_advance().unwrap_or(0) as f64 + self.device_delta(v.y_advance_device(data), coords)?,
        })
    }
    pub fn anchor(&self, a: &AnchorTable<'a>, coords: &[f64]) -> Result<(f64, f64), String> {
        Ok((a.x_coordinate() as f64 + self.device_delta(a.x_device(), coords)?, a.y_coordinate() as f64 + self.device_delta(a.y_device(), coords)?))
    }

    fn lists(&self, t: Tbl) -> Result<Option<(ScriptList<'a>, FeatureList<'a>, Option<FeatureVariations<'a>>)>, String> {
        match t {
            Tbl::Gsub => { let Ok(g) = self.font.f.gsub() else { return Ok(None) }; Ok(Some((e(g.script_list(), "GSUB script list")?, e(g.feature_list(), "GSUB feature list")?, g.feature_variations().transpose().map_err(|x| format!("GSUB feature variations: {x}"))?))) }
            Tbl::Gpos => { let Ok(g) = self.font.f.gpos() else { return Ok(None) }; Ok(Some((e(g.script_list(), "GPOS script list")?, e(g.feature_list(), "GPOS feature list")?, g.feature_variations().transpose().map_err(|x| format!("GPOS feature variations: {x}"))?))) }
        }
    }

    /// (script tag, language tag or "dflt") registered in the table
    pub fn language_systems(&self, t: Tbl) -> Result<Vec<(String, String)>, String> {
        let Some((sl, _, _)) = self.lists(t)? else { return Ok(vec![]) };
        let mut out = vec![];
        for rec in sl.script_records() {
            let s = e(rec.script(sl.offset_data()), "script")?;
            if s.default_lang_sys().is_some() { out.push((rec.script_tag().to_string(), "dflt".to_string())); }
            for lr in s.lang_sys_records() { out.push((rec.script_tag().to_string(), lr.lang_sys_tag().to_string())); }
        }
        Ok(out)
    }

    fn condition_holds(&self, c: &Condition<'a>, coords: &[f64]) -> Result<bool, String> {
        match c {
            Condition::Format1AxisRange(c) => {
                let v = coords.get(c.axis_index() as usize).copied().unwrap_or(0.0);
                Ok(v >= c.filter_range_min_value().to_f32() as f64 && v <= c.filter_range_max_value().to_f32() as f64)
            }
            _ => Err("unsupported condition format".into()),
        }
    }

    /// index of the first FeatureVariationRecord whose condition set holds at coords
    pub fn feature_variation_index(&self, t: Tbl, coords: &[f64]) -> Result<Option<usize>, String> {
        let Some((_, _, Some(fv))) = self.lists(t)? else { return Ok(None) };
        for (i, rec) in fv.feature_variation_records().iter().enumerate() {
            let holds = match rec.condition_set(fv.offset_data()) {
                None => true,
                Some(cs) => { let cs = e(cs, "condition set")?; let mut all = true; for c in cs.conditions().iter() { if !self.condition_holds(&e(c, "condition")?, coords)? { all = false; break; } } all }
            };
            if holds { return Ok(Some(i)); }
        }
        Ok(None)
    }

    /// the (feature tag, lookup indices) list active for script/lang at coords, in feature-index order.
    /// A missing script falls back to DFLT, a missing language to the script's default.
    pub fn features(&self, t: Tbl, script: &str, lang: &str, coords: &[f64]) -> Result<Vec<(String, Vec<u16>)>, String> {
        let Some((sl, fl, fv)) = self.lists(t)? else { return Ok(vec![]) };
        let recs = sl.script_records();
        let rec = recs.iter().find(|r| r.script_tag().to_string() == script).or_else(|| recs.iter().find(|r| r.script_tag().to_string() == "DFLT"));
        let Some(rec) = rec else { return Ok(vec![]) };
        let s = e(rec.script(sl.offset_data()), "script")?;
        let ls = match s.lang_sys_records().iter().find(|l| l.lang_sys_tag().to_string() == lang) {
            Some(l) => Some(e(l.lang_sys(s.offset_data()), "langsys")?),
            None => s.default_lang_sys().transpose().map_err(|x| format!("default langsys: {x}"))?,
        };
        let Some(ls) = ls else { return Ok(vec![]) };
        let mut idxs: Vec<u16> = vec![];
        if ls.required_feature_index() != 0xFFFF { idxs.push(ls.required_feature_index()); }
        idxs.extend(ls.feature_indices().iter().map(|i| i.get()));
        // substitutions from the first matching feature variation record
        let mut subst: BTreeMap<u16, Vec<u16>> = BTreeMap::new();
        if let (Some(fv), false) = (&fv, coords.is_empty()) {
            if let Some(i) = self.feature_variation_index(t, coords)? {
                let rec = &fv.feature_variation_records()[i];
                if let Some(fts) = rec.feature_table_substitution(fv.offset_data()) {
                    let fts = e(fts, "feature table substitution")?;
                    for s in fts.substitutions() {
                        let alt = e(s.alternate_feature(fts.offset_data()), "alternate feature")?;
                        subst.entry(s.feature_index()).or_insert_with(|| alt.lookup_list_indices().iter().map(|i| i.get()).collect());
                    }
                }
            }
        }
        let frs = fl.feature_records();
        let mut out = vec![];
        for i in idxs {
            let fr = frs.get(i as usize).ok_or_else(|| format!("feature index {i} out of range"))?;
            let lookups = match subst.get(&i) { Some(l) => l.clone(), None => e(fr.feature(fl.offset_data()), "feature")?.lookup_list_indices().iter().map(|i| i.get()).collect() };
            out.push((fr.feature_tag().to_string(), lookups));
        }
        Ok(out)
    }

    /// sorted unique lookup indices of the named features (None = all) for script/lang at coords
    pub fn lookups_for(&self, t: Tbl, script: &str, lang: &str, coords: &[f64], only: Option<&[&str]>) -> Result<Vec<u16>, String> {
        let mut s = BTreeSet::new();
        for (tag, ls) in self.features(t, script, lang, coords)? { if only.map_or(true, |o| o.contains(&tag.as_str())) { s.extend(ls); } }
        Ok(s.into_iter().collect())
    }

    fn flags(&self, bits: u16, filter_set: Option<u16>) -> Flags {
        Flags { ignore_base: bits & 2 != 0, ignore_lig: bits & 4 != 0, ignore_marks: bits & 8 != 0, mark_attach_type: bits >> 8, filter_set: if bits & 0x10 != 0 { filter_set } else { None } }
    }
    fn skip(&self, gid: u16, f: &Flags) -> bool {
        let c = self.class(gid);
        if c == 1 && f.ignore_base { return true; }
        if c == 2 && f.ignore_lig { return true; }
        if c == 3 {
            if f.ignore_marks { return true; }
            if let Some(s) = f.filter_set { return !self.mark_sets.get(s as usize).map(|m| m.contains(&gid)).unwrap_or(false); }
            if f.mark_attach_type != 0 { return self.mark_attach.get(&gid).copied().unwrap_or(0) != f.mark_attach_type; }
        }
        false
    }
    fn next(&self, g: &[u16], i: usize, f: &Flags) -> Option<usize> { (i + 1..g.len()).find(|j| !self.skip(g[*j], f)) }
    fn prev(&self, g: &[u16], i: usize, f: &Flags) -> Option<usize> { (0..i).rev().find(|j| !self.skip(g[*j], f)) }

    // ------------------------------------------------------------------ GSUB
    pub fn gsub_apply(&self, lookups: &[u16], glyphs: &[u16]) -> Result<Vec<u16>, String> {
        let mut g = glyphs.to_vec();
        for li in lookups { self.gsub_lookup(*li, &mut g, 0)?; }
        Ok(g)
    }

    fn gsub_lookup(&self, li: u16, g: &mut Vec<u16>, depth: usize) -> Result<(), String> {
        let mut i = 0;
        let mut guard = 0;
        while i < g.len() {
            guard += 1; if guard > 100_000 { return Err("gsub lookup does not terminate".into()); }
            match self.gsub_at(li, g, i, depth)? { Some(next) => i = next.max(i + if next > i { 0 } else { 1 }), None => i += 1 }
        }
        Ok(())
    }

    /// try lookup `li` at position i; on success returns the index to continue from
    fn gsub_at(&self, li: u16, g: &mut Vec<u16>, i: usize, depth: usize) -> Result<Option<usize>, String> {
        if depth > 8 { return Err("nested lookups deeper than 8".into()); }
        let gsub = e(self.font.f.gsub(), "GSUB")?;
        let ll = e(gsub.lookup_list(), "GSUB lookup list")?;
        let lookup = e(ll.lookups().get(li as usize), &format!("GSUB lookup {li}"))?;
        let f = self.flags(lookup.lookup_flag().to_bits(), lookup.mark_filtering_set());
        if self.skip(g[i], &f) { return Ok(None); }
        let gid = g[i];
        match e(lookup.subtables(), "GSUB subtables")? {
            SubstitutionSubtables::Single(sts) => {
                for st in sts.iter() {
                    match e(st, "single subst")? {
                        SingleSubst::Format1(s) => { if cov_index(&e(s.coverage(), "coverage")?, gid).is_some() { g[i] = (gid as i32 + s.delta_glyph_id() as i32).rem_euclid(65536) as u16; return Ok(Some(i + 1)); } }
                        SingleSubst::Format2(s) => { if let Some(ci) = cov_index(&e(s.coverage(), "coverage")?, gid) { g[i] = s.substitute_glyph_ids().get(ci).ok_or("single subst: coverage index beyond substitutes")?.get().to_u16(); return Ok(Some(i + 1)); } }
                    }
                }
            }
            SubstitutionSubtables::Multiple(sts) => {
                for st in sts.iter() {
                    let s = e(st, "multiple subst")?;
                    if let Some(ci) = cov_index(&e(s.coverage(), "coverage")?, gid) {
                        let seq = e(s.sequences().get(ci), "sequence")?;
                        let out: Vec<u16> = seq.substitute_glyph_ids().iter().map(|x| x.get().to_u16()).collect();
                        let n = out.len();
                        g.splice(i..i + 1, out);
                        return Ok(Some(i + n));
                    }
                }
            }
            SubstitutionSubtables::Alternate(sts) => {
                for st in sts.iter() {
                    let s = e(st, "alternate subst")?;
                    if let Some(ci) = cov_index(&e(s.coverage(), "coverage")?, gid) {
                        let set = e(s.alternate_sets().get(ci), "alternate set")?;
                        if let Some(a) = set.alternate_glyph_ids().first() { g[i] = a.get().to_u16(); }
                        return Ok(Some(i + 1));
                    }
                }
            }
            SubstitutionSubtables::Ligature(sts) => {
                for st in sts.iter() {
                    let s = e(st, "ligature subst")?;
                    if let Some(ci) = cov_index(&e(s.coverage(), "coverage")?, gid) {
                        let set = e(s.ligature_sets().get(ci), "ligature set")?;
                        for lig in set.ligatures().iter() {
                            let lig = e(lig, "ligature")?;
                            let comps: Vec<u16> = lig.component_glyph_ids().iter().map(|x| x.get().to_u16()).collect();
                            let mut pos = vec![i]; let mut ok = true; let mut j = i;
                            for c in &comps { match self.next(g, j, &f) { Some(k) if g[k] == *c => { pos.push(k); j = k; } _ => { ok = false; break; } } }
                            if !ok { continue; }
                            g[i] = lig.ligature_glyph().to_u16();
                            for k in pos[1..].iter().rev() { g.remove(*k); }
                            return Ok(Some(i + 1));
                        }
                    }
                }
            }
            SubstitutionSubtables::Contextual(sts) => {
                for st in sts.iter() {
                    if let Some((positions, recs)) = self.match_context(&e(st, "context subst")?, g, i, &f)? { return self.apply_nested(Tbl::Gsub, g, positions, &recs, depth).map(Some); }
                }
            }
            SubstitutionSubtables::ChainContextual(sts) => {
                for st in sts.iter() {
                    if let Some((positions, recs)) = self.match_chain(&e(st, "chain context subst")?, g, i, &f)? { return self.apply_nested(Tbl::Gsub, g, positions, &recs, depth).map(Some); }
                }
            }
            SubstitutionSubtables::Reverse(_) => return Err("reverse chaining substitution not supported by the interpreter".into()),
            SubstitutionSubtables::EmptyExtension => {}
        }
        Ok(None)
    }

    fn apply_nested(&self, _t: Tbl, g: &mut Vec<u16>, mut positions: Vec<usize>, recs: &[(u16, u16)], depth: usize) -> Result<usize, String> {
        for (seq_idx, lookup) in recs {
            let Some(&p) = positions.get(*seq_idx as usize) else { continue };
            if p >= g.len() { continue; }
            let before = g.len();
            self.gsub_at(*lookup, g, p, depth + 1)?;
            let after = g.len();
            if after != before {
                let delta = after as i64 - before as i64;
                for q in positions.iter_mut() { if *q > p { *q = (*q as i64 + delta).max(p as i64) as usize; } }
            }
        }
        Ok(positions.last().map(|p| p + 1).unwrap_or(0).min(g.len()))
    }

    fn recs(r: &[SequenceLookupRecord]) -> Vec<(u16, u16)> { r.iter().map(|r| (r.sequence_index(), r.lookup_list_index())).collect() }

    /// match the input sequence starting at i: `test(k, gid)` must hold for the k-th following glyph
    fn match_input(&self, g: &[u16], i: usize, n_more: usize, f: &Flags, test: &dyn Fn(usize, u16) -> bool) -> Option<Vec<usize>> {
        let mut pos = vec![i]; let mut j = i;
        for k in 0..n_more { match self.next(g, j, f) { Some(m) if test(k, g[m]) => { pos.push(m); j = m; } _ => return None } }
        Some(pos)
    }
    fn match_back(&self, g: &[u16], i: usize, n: usize, f: &Flags, test: &dyn Fn(usize, u16) -> bool) -> bool {
        let mut j = i;
        for k in 0..n { match self.prev(g, j, f) { Some(m) if test(k, g[m]) => j = m, _ => return false } }
        true
    }
    fn match_ahead(&self, g: &[u16], last: usize, n: usize, f: &Flags, test: &dyn Fn(usize, u16) -> bool) -> bool {
        let mut j = last;
        for k in 0..n { match self.next(g, j, f) { Some(m) if test(k, g[m]) => j = m, _ => return false } }
        true
    }

    fn match_context(&self, st: &SequenceContext<'a>, g: &[u16], i: usize, f: &Flags) -> Result<Option<(Vec<usize>, Vec<(u16, u16)>)>, String> {
        let gid = g[i];
        match st {
            SequenceContext::Format1(s) => {
                let Some(ci) = cov_index(&e(s.coverage(), "coverage")?, gid) else { return Ok(None) };
                let Some(set) = s.seq_rule_sets().get(ci) else { return Ok(None) };
                for rule in e(set, "rule set")?.seq_rules().iter() {
                    let rule = e(rule, "rule")?;
                    let inp: Vec<u16> = rule.input_sequence().iter().map(|x| x.get().to_u16()).collect();
                    if let Some(p) = self.match_input(g, i, inp.len(), f, &|k, x| inp[k] == x) { return Ok(Some((p, Self::recs(rule.seq_lookup_records())))); }
                }
                Ok(None)
            }
            SequenceContext::Format2(s) => {
                if cov_index(&e(s.coverage(), "coverage")?, gid).is_none() { return Ok(None); }
                let cd = e(s.class_def(), "class def")?;
                let c = class_of(&cd, gid);
                let Some(set) = s.class_seq_rule_sets().get(c as usize) else { return Ok(None) };
                for rule in e(set, "class rule set")?.class_seq_rules().iter() {
                    let rule = e(rule, "class rule")?;
                    let inp: Vec<u16> = rule.input_sequence().iter().map(|x| x.get()).collect();
                    if let Some(p) = self.match_input(g, i, inp.len(), f, &|k, x| inp[k] == class_of(&cd, x)) { return Ok(Some((p, Self::recs(rule.seq_lookup_records())))); }
                }
                Ok(None)
            }
            SequenceContext::Format3(s) => {
                let covs: Vec<CoverageTable> = s.coverages().iter().collect::<Result<_, _>>().map_err(|x| format!("coverage: {x}"))?;
                if covs.is_empty() || cov_index(&covs[0], gid).is_none() { return Ok(None); }
                Ok(self.match_input(g, i, covs.len() - 1, f, &|k, x| cov_index(&covs[k + 1], x).is_some()).map(|p| (p, Self::recs(s.seq_lookup_records()))))
            }
        }
    }

    fn match_chain(&self, st: &ChainedSequenceContext<'a>, g: &[u16], i: usize, f: &Flags) -> Result<Option<(Vec<usize>, Vec<(u16, u16)>)>, String> {
        let gid = g[i];
        match st {
            ChainedSequenceContext::Format1(s) => {
                let Some(ci) = cov_index(&e(s.coverage(), "coverage")?, gid) else { return Ok(None) };
                let Some(set) = s.chained_seq_rule_sets().get(ci) else { return Ok(None) };
                for rule in e(set, "chain rule set")?.chained_seq_rules().iter() {
                    let rule = e(rule, "chain rule")?;
                    let inp: Vec<u16> = rule.input_sequence().iter().map(|x| x.get().to_u16()).collect();
                    let back: Vec<u16> = rule.backtrack_sequence().iter().map(|x| x.get().to_u16()).collect();
                    let ahead: Vec<u16> = rule.lookahead_sequence().iter().map(|x| x.get().to_u16()).collect();
                    let Some(p) = self.match_input(g, i, inp.len(), f, &|k, x| inp[k] == x) else { continue };
                    if !self.match_back(g, i, back.len(), f, &|k, x| back[k] == x) { continue; }
                    if !self.match_ahead(g, *p.last().unwrap(), ahead.len(), f, &|k, x| ahead[k] == x) { continue; }
                    return Ok(Some((p, Self::recs(rule.seq_lookup_records()))));
                }
                Ok(None)
            }
            ChainedSequenceContext::Format2(s) => {
                if cov_index(&e(s.coverage(), "coverage")?, gid).is_none() { return Ok(None); }
                let (bcd, icd, acd) = (e(s.backtrack_class_def(), "backtrack classes")?, e(s.input_class_def(), "input classes")?, e(s.lookahead_class_def(), "lookahead classes")?);
                let c = class_of(&icd, gid);
                let Some(set) = s.chained_class_seq_rule_sets().get(c as usize) else { return Ok(None) };
                for rule in e(set, "chain class rule set")?.chained_class_seq_rules().iter() {
                    let rule = e(rule, "chain class rule")?;
                    let inp: Vec<u16> = rule.input_sequence().iter().map(|x| x.get()).collect();
                    let back: Vec<u16> = rule.backtrack_sequence().iter().map(|x| x.get()).collect();
                    let ahead: Vec<u16> = rule.lookahead_sequence().iter().map(|x| x.get()).collect();
                    let Some(p) = self.match_input(g, i, inp.len(), f, &|k, x| inp[k] == class_of(&icd, x)) else { continue };
                    if !self.match_back(g, i, back.len(), f, &|k, x| back[k] == class_of(&bcd, x)) { continue; }
                    if !self.match_ahead(g, *p.last().unwrap(), ahead.len(), f, &|k, x| ahead[k] == class_of(&acd, x)) { continue; }
                    return Ok(Some((p, Self::recs(rule.seq_lookup_records()))));
                }
                Ok(None)
            }
            ChainedSequenceContext::Format3(s) => {
                let rd = |a: read_fonts::ArrayOfOffsets<'a, CoverageTable<'a>, read_fonts::types::Offset16>| -> Result<Vec<CoverageTable<'a>>, String> { a.iter().collect::<Result<_, _>>().map_err(|x| format!("coverage: {x}")) };
                let (back, inp, ahead) = (rd(s.backtrack_coverages())?, rd(s.input_coverages())?, rd(s.lookahead_coverages())?);
                if inp.is_empty() || cov_index(&inp[0], gid).is_none() { return Ok(None); }
                let Some(p) = self.match_input(g, i, inp.len() - 1, f, &|k, x| cov_index(&inp[k + 1], x).is_some()) else { return Ok(None) };
                if !self.match_back(g, i, back.len(), f, &|k, x| cov_index(&back[k], x).is_some()) { return Ok(None); }
                if !self.match_ahead(g, *p.last().unwrap(), ahead.len(), f, &|k, x| cov_index(&ahead[k], x).is_some()) { return Ok(None); }
                Ok(Some((p, Self::recs(s.seq_lookup_records()))))
            }
        }
    }

    /// all alternates the lookups offer for a glyph (union over lookups, in order)
    pub fn gsub_alternates(&self, lookups: &[u16], gid: u16) -> Result<Vec<u16>, String> {
        let gsub = e(self.font.f.gsub(), "GSUB")?;
        let ll = e(gsub.lookup_list(), "GSUB lookup list")?;
        let mut out = vec![];
        for li in lookups {
            let lookup = e(ll.lookups().get(*li as usize), "lookup")?;
            if let SubstitutionSubtables::Alternate(sts) = e(lookup.subtables(), "subtables")? {
                for st in sts.iter() { let s = e(st, "alternate")?; if let Some(ci) = cov_index(&e(s.coverage(), "coverage")?, gid) { out.extend(e(s.alternate_sets().get(ci), "set")?.alternate_glyph_ids().iter().map(|x| x.get().to_u16())); break; } }
            }
        }
        Ok(out)
    }

    // ------------------------------------------------------------------ GPOS (single, pair, contextual)
    pub fn gpos_apply(&self, lookups: &[u16], glyphs: &[u16], coords: &[f64]) -> Result<Vec<Pos>, String> {
        let mut pos = vec![Pos::default(); glyphs.len()];
        for li in lookups {
            let mut i = 0;
            while i < glyphs.len() { i = self.gpos_at(*li, glyphs, &mut pos, i, coords, 0)?.unwrap_or(i + 1).max(i + 1); }
        }
        Ok(pos)
    }

    fn add(p: &mut Pos, v: Pos) { p.x_place += v.x_place; p.y_place += v.y_place; p.x_adv += v.x_adv; p.y_adv += v.y_adv; }

    fn gpos_at(&self, li: u16, g: &[u16], pos: &mut [Pos], i: usize, coords: &[f64], depth: usize) -> Result<Option<usize>, String> {
        if depth > 8 { return Err("nested lookups deeper than 8".into()); }
        let gpos = e(self.font.f.gpos(), "GPOS")?;
        let ll = e(gpos.lookup_list(), "GPOS lookup list")?;
        let lookup = e(ll.lookups().get(li as usize), &format!("GPOS lookup {li}"))?;
        let f = self.flags(lookup.lookup_flag().to_bits(), lookup.mark_filtering_set());
        if self.skip(g[i], &f) { return Ok(None); }
        let gid = g[i];
        match e(lookup.subtables(), "GPOS subtables")? {
            PositionSubtables::Single(sts) => {
                for st in sts.iter() {
                    match e(st, "single pos")? {
                        SinglePos::Format1(s) => { if cov_index(&e(s.coverage(), "coverage")?, gid).is_some() { let v = self.value(&s.value_record(), s.offset_data(), coords)?; Self::add(&mut pos[i], v); return Ok(Some(i + 1)); } }
                        SinglePos::Format2(s) => { if let Some(ci) = cov_index(&e(s.coverage(), "coverage")?, gid) { let r = e(s.value_records().get(ci), "value record")?; let v = self.value(&r, s.offset_data(), coords)?; Self::add(&mut pos[i], v); return Ok(Some(i + 1)); } }
                    }
                }
            }
            PositionSubtables::Pair(sts) => {
                let Some(j) = self.next(g, i, &f) else { return Ok(None) };
                for st in sts.iter() {
                    match e(st, "pair pos")? {
                        PairPos::Format1(s) => {
                            let Some(ci) = cov_index(&e(s.coverage(), "coverage")?, gid) else { continue };
                            let set = e(s.pair_sets().get(ci), "pair set")?;
                            for rec in set.pair_value_records().iter() {
                                let rec = e(rec, "pair value record")?;
                                if rec.second_glyph().to_u16() == g[j] {
                                    let v1 = self.value(rec.value_record1(), set.offset_data(), coords)?; let v2 = self.value(rec.value_record2(), set.offset_data(), coords)?;
                                    Self::add(&mut pos[i], v1); Self::add(&mut pos[j], v2);
                                    return Ok(Some(if s.value_format2().bits() != 0 { j + 1 } else { j }));
                                }
                            }
                        }
                        PairPos::Format2(s) => {
                            if cov_index(&e(s.coverage(), "coverage")?, gid).is_none() { continue; }
                            let c1 = class_of(&e(s.class_def1(), "class def 1")?, gid); let c2 = class_of(&e(s.class_def2(), "class def 2")?, g[j]);
                            let r1 = e(s.class1_records().get(c1 as usize), "class1 record")?;
                            let r2 = e(r1.class2_records().get(c2 as usize), "class2 record")?;
                            let v1 = self.value(r2.value_record1(), s.offset_data(), coords)?; let v2 = self.value(r2.value_record2(), s.offset_data(), coords)?;
                            Self::add(&mut pos[i], v1); Self::add(&mut pos[j], v2);
                            return Ok(Some(if s.value_format2().bits() != 0 { j + 1 } else { j }));
                        }
                    }
                }
            }
            PositionSubtables::Contextual(sts) => {
                for st in sts.iter() { if let Some((p, recs)) = self.match_context(&e(st, "context pos")?, g, i, &f)? { for (si, l) in &recs { if let Some(&q) = p.get(*si as usize) { self.gpos_at(*l, g, pos, q, coords, depth + 1)?; } } return Ok(Some(p.last().unwrap() + 1)); } }
            }
            PositionSubtables::ChainContextual(sts) => {
                for st in sts.iter() { if let Some((p, recs)) = self.match_chain(&e(st, "chain context pos")?, g, i, &f)? { for (si, l) in &recs { if let Some(&q) = p.get(*si as usize) { self.gpos_at(*l, g, pos, q, coords, depth + 1)?; } } return Ok(Some(p.last().unwrap() + 1)); } }
            }
            _ => {}
        }
        Ok(None)
    }

    /// kind of each GPOS lookup (1..9 after unwrapping extensions)
    pub fn gpos_lookup_kind(&self, li: u16) -> Result<u16, String> {
        let gpos = e(self.font.f.gpos(), "GPOS")?;
        let ll = e(gpos.lookup_list(), "GPOS lookup list")?;
        let lookup = e(ll.lookups().get(li as usize), "lookup")?;
        Ok(match e(lookup.subtables(), "subtables")? { PositionSubtables::Single(_) => 1, PositionSubtables::Pair(_) => 2, PositionSubtables::Cursive(_) => 3, PositionSubtables::MarkToBase(_) => 4, PositionSubtables::MarkToLig(_) => 5, PositionSubtables::MarkToMark(_) => 6, PositionSubtables::Contextual(_) => 7, PositionSubtables::ChainContextual(_) => 8, PositionSubtables::EmptyExtension => 0 })
    }

    // ------------------------------------------------------------------ mark attachment queries
    /// For each lookup (in the given order) the attachment the first covering subtable defines for
    /// (base glyph, mark glyph): mark-to-base (kind 4), mark-to-ligature component `comp` (kind 5),
    /// mark-to-mark (kind 6).
    pub fn mark_attachments(&self, lookups: &[u16], kind: u16, base: u16, mark: u16, comp: usize, coords: &[f64]) -> Result<Vec<MarkAttach>, String> {
        let gpos = e(self.font.f.gpos(), "GPOS")?;
        let ll = e(gpos.lookup_list(), "GPOS lookup list")?;
        let mut out = vec![];
        for li in lookups {
            let lookup = e(ll.lookups().get(*li as usize), "lookup")?;
            match (kind, e(lookup.subtables(), "subtables")?) {
                (4, PositionSubtables::MarkToBase(sts)) => {
                    for (si, st) in sts.iter().enumerate() {
                        let s = e(st, "mark base")?;
                        let (Some(mi), Some(bi)) = (cov_index(&e(s.mark_coverage(), "mark coverage")?, mark), cov_index(&e(s.base_coverage(), "base coverage")?, base)) else { continue };
                        let ma = e(s.mark_array(), "mark array")?;
                        let mr = ma.mark_records().get(mi).ok_or("mark record missing")?;
                        let ba = e(s.base_array(), "base array")?;
                        let br = e(ba.base_records().get(bi), "base record")?;
                        let Some(anchor) = br.base_anchors(ba.offset_data()).get(mr.mark_class() as usize) else { continue };
                        let Ok(anchor) = anchor else { continue };
                        out.push(MarkAttach { lookup: *li, subtable: si, base: self.anchor(&anchor, coords)?, mark: self.anchor(&e(mr.mark_anchor(ma.offset_data()), "mark anchor")?, coords)? });
                        break;
                    }
                }
                (5, PositionSubtables::MarkToLig(sts)) => {
                    for (si, st) in sts.iter().enumerate() {
                        let s = e(st, "mark lig")?;
                        let (Some(mi), Some(bi)) = (cov_index(&e(s.mark_coverage(), "mark coverage")?, mark), cov_index(&e(s.ligature_coverage(), "ligature coverage")?, base)) else { continue };
                        let ma = e(s.mark_array(), "mark array")?;
                        let mr = ma.mark_records().get(mi).ok_or("mark record missing")?;
                        let la = e(s.ligature_array(), "ligature array")?;
                        let att = e(la.ligature_attaches().get(bi), "ligature attach")?;
                        let Ok(cr) = att.component_records().get(comp) else { continue };
                        let Some(anchor) = cr.ligature_anchors(att.offset_data()).get(mr.mark_class() as usize) else { continue };
                        let Ok(anchor) = anchor else { continue };
                        out.push(MarkAttach { lookup: *li, subtable: si, base: self.anchor(&anchor, coords)?, mark: self.anchor(&e(mr.mark_anchor(ma.offset_data()), "mark anchor")?, coords)? });
                        break;
                    }
                }
                (6, PositionSubtables::MarkToMark(sts)) => {
                    for (si, st) in sts.iter().enumerate() {
                        let s = e(st, "mark mark")?;
                        let (Some(mi), Some(bi)) = (cov_index(&e(s.mark1_coverage(), "mark1 coverage")?, mark), cov_index(&e(s.mark2_coverage(), "mark2 coverage")?, base)) else { continue };
                        let ma = e(s.mark1_array(), "mark1 array")?;
                        let mr = ma.mark_records().get(mi).ok_or("mark record missing")?;
                        let ba = e(s.mark2_array(), "mark2 array")?;
                        let br = e(ba.mark2_records().get(bi), "mark2 record")?;
                        let Some(anchor) = br.mark2_anchors(ba.offset_data()).get(mr.mark_class() as usize) else { continue };
                        let Ok(anchor) = anchor else { continue };
                        out.push(MarkAttach { lookup: *li, subtable: si, base: self.anchor(&anchor, coords)?, mark: self.anchor(&e(mr.mark_anchor(ma.offset_data()), "mark anchor")?, coords)? });
                        break;
                    }
                }
                _ => {}
            }
        }
        Ok(out)
    }
}
