#!/bin/bash
# tools/try_seed_wt.sh <Cxx> <X> <worktree> [check ids ...]
# Like try_seed.sh but applies the patch in a scratch worktree and points the check at it
# (VF_REPO_ROOT), so that /repo itself stays untouched (e.g. while a background run uses it).
set -u
HERE="$(cd "$(dirname "$0")/.." && pwd)"
ID="$1"; X="$2"; WT="$3"; shift 3
CHECKS=("$@"); [ ${#CHECKS[@]} -eq 0 ] && CHECKS=("$ID")
git -C "$WT" checkout -q -- . ; git -C "$WT" apply "$HERE/seeded/$ID/$X/patch.diff" || { echo "patch does not apply"; exit 2; }
export VF_OUT="$HERE/target/alt-out/seed-$ID-$X"; rm -rf "$VF_OUT"; mkdir -p "$VF_OUT"
for c in "${CHECKS[@]}"; do
  out=$(VF_REPO_ROOT="$WT" "$HERE/check" "$c" "${TIER:-quick}" 2>&1); rc=$?
  echo "SEED $ID/$X check=$c rc=$rc $(echo "$out" | grep -m1 VIOLATION)"
  echo "$out" | grep -A1 VIOLATION | sed -n 2p | cut -c1-400
done
git -C "$WT" checkout -q -- .
# restore the engine manifest for /repo
( cd "$HERE" && VF_REPO_ROOT=/repo bash -c 'source /dev/stdin' <<'E2'
true
E2
)
sed -e "s|@REPO@|/repo|g" -e "s|@HOOKS@|$(grep -q '^verif_hooks' /repo/fontc/Cargo.toml 2>/dev/null && echo ', features = [\"verif_hooks\"]')|g" "$HERE/engine/Cargo.toml.tmpl" > "$HERE/engine/Cargo.toml"
