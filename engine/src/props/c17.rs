//! C17 — Summary fields agree with the data they summarise.
use crate::genome::{fnv_str, Gen};
use crate::ot::outline::ot_round;
use crate::ot::summary::check_summary;
use crate::ot::Font;
use crate::props::c03::{attach_source, build, classify, describe, gid_map};
use crate::props::c05::gen_opts;
use crate::run::{CaseReport, Ctx, Part};
use crate::synth::build::{compile_path, BuildOpts};
use crate::synth::corpus::fixtures;
use crate::synth::model::*;
use serde_json::json;

pub fn profile() -> Profile {
    Profile { min_axes: 0, max_axes: 2, max_glyphs: 12, min_glyphs: 1, outlines: true, cubic: true, components: 5, transforms: true, mixed: true, sparse: 0,
        order_variety: true, non_export: true, metrics_class_a: false, vertical: true, half_coords: true, maps: false, awkward_axes: false, multi_codepoints: true, ps_names: false, anchors: false, kerning: false, instances: false, flat_maps: false, point_axis: false, weird_names: false, ..Profile::base() }
}

pub fn check_synth(ctx: &Ctx, genome: &[u16]) -> CaseReport {
    let mut rep = CaseReport::default();
    let mut g = Gen::new(genome);
    let mut og = g.fork(12);
    let opts = if og.chance(1, 2) { BuildOpts::default() } else { gen_opts(&mut og) };
    let mut f = SynthFont::decode(&genome[12.min(genome.len())..], &profile());
    // shapes the statement names: negative bearings, zero advances, trailing runs of equal advances
    let mut sg = Gen::new(&genome[genome.len().saturating_sub(8)..]);
    let shift = sg.chance(1, 3);
    let run = sg.chance(1, 2);
    let run_adv = 300.0 + sg.below(300) as f64;
    let ng = f.glyphs.len();
    for (i, gl) in f.glyphs.iter_mut().enumerate() {
        for src in gl.sources.values_mut() {
            if shift && i % 3 == 0 { for c in &mut src.contours { for p in &mut c.pts { p.x -= 400.0; } } }
            if run && i + 3 >= ng { src.advance = run_adv; }
        }
    }
    if f.glyph_order.is_some() && run { f.glyph_order = None; }
    // feature code whose lookups decide usMaxContext: a ligature, a chaining rule with lookahead, a reverse chaining rule, a pair
    let pool: Vec<String> = f.glyphs.iter().filter(|x| x.export && x.name != ".notdef" && x.name.chars().all(|c| c.is_ascii_alphanumeric() || c == '.' || c == '_') && x.name.chars().next().map_or(false, |c| c.is_ascii_alphabetic())).map(|x| x.name.clone()).collect();
    let mut fea_kinds: Vec<&str> = vec![];
    if pool.len() >= 2 && sg.chance(1, 2) {
        let pick = |g: &mut Gen| pool[g.below(pool.len())].clone();
        let mut t = String::new();
        for (k, kind) in ["ligature", "chain", "reverse-chain", "pair"].iter().enumerate() {
            if !sg.chance(1, 2) { continue; }
            let (nb, na) = (sg.below(4), sg.below(4));
            let back: Vec<String> = (0..nb).map(|_| pick(&mut sg)).collect(); let ahead: Vec<String> = (0..na).map(|_| pick(&mut sg)).collect();
            let (a, b) = (pick(&mut sg), pick(&mut sg));
            let rule = match *kind {
                "ligature" => format!("sub {} by {};", (0..2 + nb).map(|_| pick(&mut sg)).collect::<Vec<_>>().join(" "), a),
                "chain" => format!("sub {} {}' {} by {};", back.join(" "), a, ahead.join(" "), b),
                "reverse-chain" => format!("rsub {} {}' {} by {};", back.join(" "), a, ahead.join(" "), b),
                _ => format!("pos {a} {b} -{};", 10 + nb),
            };
            t.push_str(&format!("feature {} {{\n  lookup M{k} {{\n    {rule}\n  }} M{k};\n}} {};\n", ["liga", "calt", "rclt", "kern"][k], ["liga", "calt", "rclt", "kern"][k]));
            fea_kinds.push(kind);
        }
        if !t.is_empty() { f.features = Some(t); }
    }
    rep.key = f.hash() ^ fnv_str(&opts.label());
    classify(&mut rep, &f);
    for k in &fea_kinds { rep.class(format!("feature-code:{k}")); }
    if shift { rep.class("negative-bearings"); } if run { rep.class("trailing-equal-advances"); }
    if f.glyphs.iter().any(|g| g.sources[&0].advance == 0.0) { rep.class("zero-advance-glyph"); }
    if f.glyphs.iter().any(|g| g.codepoints.iter().any(|c| *c > 0xFFFF)) { rep.class("supplementary-codepoint"); }
    rep.sample = Some(json!({"options": opts.label(), "font": describe(&f)}));
    if ctx.dry { for (k, v) in crate::synth::ufo::render(&f) { rep.artifacts.push((k, v.into_bytes())); } return rep; }
    let Some(b) = build(ctx, &mut rep, f, &opts) else { return rep };
    let (problems, evals) = check_summary(&b.bytes, false);
    rep.evals = evals;
    for (s, d) in problems { rep.fail(s, d); }
    // every hmtx advance vs the model (so an over-trimmed long-metrics run shows)
    if let Ok(font) = Font::new(&b.bytes) { if let Ok(gids) = gid_map(&font) {
        for gl in b.font.glyphs.iter().filter(|g| g.export) { if let Some(&gid) = gids.get(&gl.name) { if let Ok((a, _)) = font.advance(gid) {
            if a as f64 != ot_round(gl.sources[&0].advance) { rep.fail("hmtx-advance-differs-from-source", format!("{}: {a} vs {}", gl.name, gl.sources[&0].advance)); } } } }
    } }
    let has_comp = b.font.glyphs.iter().any(|g| g.export && b.font.has_components(&g.name));
    rep.nontrivial = has_comp && (shift || run);
    attach_source(&mut rep, &b);
    rep
}

pub fn check_corpus(ctx: &Ctx, genome: &[u16]) -> CaseReport {
    let mut rep = CaseReport::default();
    let mut g = Gen::new(genome);
    let fx = fixtures(ctx);
    if fx.is_empty() { rep.discard = true; return rep; }
    let i = g.below(fx.len());
    let opts = if g.chance(2, 3) { BuildOpts::default() } else { gen_opts(&mut g) };
    let rel = fx[i].strip_prefix(&ctx.repo).unwrap_or(&fx[i]).display().to_string();
    rep.key = fnv_str(&rel) ^ fnv_str(&opts.label());
    rep.sample = Some(json!({"fixture": rel, "options": opts.label()}));
    if ctx.dry { return rep; }
    match compile_path(&fx[i], &opts) {
        Ok(bytes) => { let (p, e) = check_summary(&bytes, true); rep.evals = e; for (s, d) in p { rep.fail(s, d); } rep.nontrivial = true; rep.class("fixture-compiles"); }
        Err(_) => { rep.discard = true; rep.class("fixture-rejected"); }
    }
    rep
}

pub fn parts() -> Vec<Part> {
    vec![
        Part { name: "synth", genome_len: 1500, cases_quick: 1000, cases_thorough: 20000, threads: 12, max_shrink_iters: 250, check: Box::new(check_synth), remote: None },
        Part { name: "corpus", genome_len: 16, cases_quick: 300, cases_thorough: 3000, threads: 12, max_shrink_iters: 60, check: Box::new(check_corpus), remote: None },
    ]
}
pub const RULE: &str = "synth: SynthFont (0-2 axes, empty / simple / composite / nested / mixed glyphs, transforms, vertical metrics, supplementary and multiple codepoints) with injected negative bearings (contours shifted left), zero advances and trailing runs of equal advances, in half of the cases feature code with up to four lookups that decide usMaxContext (ligature of 2-5 components, chaining substitution with 0-3 backtrack / lookahead glyphs, reverse chaining substitution, pair positioning), x default or generated options; corpus: resources/testdata fixtures that compile. Oracle: recomputation from the emitted tables only (head bbox = union of glyph boxes, glyph header boxes vs points, hhea advanceWidthMax / minLSB / minRSB / xMaxExtent with either reading of 'glyphs with contours', numberOfHMetrics admissible, lsb == xMin when head says so, vhea advanceHeightMax, maxp maxima incl. composite totals / elements / depth, loca format vs glyf size and monotonicity, OS/2 xAvgCharWidth, first/last char index, bit 57, 18 single-block Unicode-range bits) plus hmtx advances vs the model. non-trivial = composite glyph and (negative bearings or trailing run); distinct = hash(model or fixture, options)";
pub const ASSUMPTIONS: &[&str] = &["where the specification leaves a choice (composite of empty glyphs counting as 'with contours', non-minimal numberOfHMetrics, rounding vs truncation of the average width) every admissible value is accepted", "code-page bits and usMaxContext with layout tables are checked by the layout-aware part once the layout interpreter is linked (usMaxContext must be 0 without layout tables)"];
