//! Persistent child worker: the check runs in a child process (`vf <id> --serve <part>`), so a
//! stack overflow / abort / hang in the code under test becomes a recorded outcome for the
//! exact case instead of killing the harness.
use crate::run::{CaseReport, Ctx, Failure, Part};
use serde_json::{json, Value};
use std::cell::RefCell;
use std::io::{BufRead, BufReader, Write};
use std::os::fd::AsRawFd;
use std::process::{Child, ChildStdin, ChildStdout, Command, Stdio};

#[derive(Clone, Copy)]
pub struct RemoteCfg { pub stack_bytes: usize, pub timeout_s: u32, pub mem_bytes: u64 }

struct Remote { child: Child, stdin: ChildStdin, stdout: BufReader<ChildStdout>, key: String }

thread_local! { static REMOTE: RefCell<Option<Remote>> = const { RefCell::new(None) }; }

fn spawn(ctx: &Ctx, part: &Part) -> Remote {
    let exe = std::env::current_exe().expect("current_exe");
    let mut child = Command::new(exe)
        .arg(ctx.prop).arg("--serve").arg(part.name)
        .env("VF_HOME", &ctx.home).env("VF_REPO_ROOT", &ctx.repo).env("VERIF_SEED", ctx.seed.to_string())
        .env("VF_TIER", if ctx.tier == crate::run::Tier::Quick { "quick" } else { "thorough" })
        .stdin(Stdio::piped()).stdout(Stdio::piped()).stderr(Stdio::null())
        .spawn().expect("spawn worker child");
    let stdin = child.stdin.take().unwrap();
    let stdout = BufReader::new(child.stdout.take().unwrap());
    Remote { child, stdin, stdout, key: format!("{}:{}", ctx.prop, part.name) }
}

pub fn report_to_json(r: &CaseReport) -> Value {
    json!({"f": r.failures.iter().map(|f| json!([f.signature, f.detail])).collect::<Vec<_>>(),
        "n": r.nontrivial, "k": r.key.to_string(), "c": r.classes, "s": r.sample, "e": r.evals, "d": r.discard,
        "a": r.artifacts.iter().map(|(n, d)| json!([n, String::from_utf8_lossy(d)])).collect::<Vec<_>>()})
}

pub fn report_from_json(v: &Value) -> CaseReport {
    let mut r = CaseReport::default();
    for f in v["f"].as_array().into_iter().flatten() {
        r.failures.push(Failure { signature: f[0].as_str().unwrap_or("").into(), detail: f[1].as_str().unwrap_or("").into() });
    }
    r.nontrivial = v["n"].as_bool().unwrap_or(false);
    r.key = v["k"].as_str().and_then(|s| s.parse().ok()).unwrap_or(0);
    r.classes = v["c"].as_array().into_iter().flatten().filter_map(|c| c.as_str().map(String::from)).collect();
    r.sample = if v["s"].is_null() { None } else { Some(v["s"].clone()) };
    r.evals = v["e"].as_u64().unwrap_or(0);
    r.discard = v["d"].as_bool().unwrap_or(false);
    for a in v["a"].as_array().into_iter().flatten() {
        r.artifacts.push((a[0].as_str().unwrap_or("").into(), a[1].as_str().unwrap_or("").as_bytes().to_vec()));
    }
    r
}

enum Res { Ok(CaseReport), Died(String), Timeout }

fn one_try(ctx: &Ctx, part: &Part, genome: &[u16], timeout_s: u32) -> Res {
    REMOTE.with(|cell| {
        let mut slot = cell.borrow_mut();
        let want = format!("{}:{}", ctx.prop, part.name);
        if slot.as_ref().map(|r| r.key != want).unwrap_or(false) {
            if let Some(mut r) = slot.take() { let _ = r.child.kill(); let _ = r.child.wait(); }
        }
        if slot.is_none() { *slot = Some(spawn(ctx, part)); }
        let r = slot.as_mut().unwrap();
        let line = genome.iter().map(|w| format!("{w:04x}")).collect::<String>();
        let sent = writeln!(r.stdin, "{line}").and_then(|_| r.stdin.flush());
        let mut out = String::new();
        let mut res = None;
        if sent.is_ok() {
            // wait for a line with a timeout
            let fd = r.stdout.get_ref().as_raw_fd();
            let mut waited_ms: i64 = 0;
            loop {
                if !r.stdout.buffer().is_empty() { break; }
                let mut pfd = libc::pollfd { fd, events: libc::POLLIN, revents: 0 };
                let rc = unsafe { libc::poll(&mut pfd, 1, 1000) };
                if rc > 0 { break; }
                waited_ms += 1000;
                if waited_ms >= timeout_s as i64 * 1000 { res = Some(Res::Timeout); break; }
            }
            if res.is_none() {
                match r.stdout.read_line(&mut out) {
                    Ok(n) if n > 0 => {
                        if let Ok(v) = serde_json::from_str::<Value>(&out) { res = Some(Res::Ok(report_from_json(&v))); }
                    }
                    _ => {}
                }
            }
        }
        match res {
            Some(Res::Ok(rep)) => Res::Ok(rep),
            Some(Res::Timeout) => {
                let mut r = slot.take().unwrap();
                let _ = r.child.kill(); let _ = r.child.wait();
                Res::Timeout
            }
            _ => {
                let mut r = slot.take().unwrap();
                let status = r.child.wait().ok();
                use std::os::unix::process::ExitStatusExt;
                let how = match status { Some(s) => match s.signal() { Some(sig) => format!("signal-{sig}"), None => format!("exit-{}", s.code().unwrap_or(-1)) }, None => "unknown".into() };
                Res::Died(how)
            }
        }
    })
}

fn describe(ctx: &Ctx, part: &Part, genome: &[u16], mut r: CaseReport) -> CaseReport {
    let mut c2 = ctx.clone();
    c2.dry = true;
    if let Ok(d) = std::panic::catch_unwind(std::panic::AssertUnwindSafe(|| (part.check)(&c2, genome))) {
        r.sample = d.sample; r.artifacts = d.artifacts; r.key = d.key; r.classes = d.classes;
    }
    r
}

pub fn remote_check(ctx: &Ctx, part: &Part, cfg: RemoteCfg, genome: &[u16]) -> CaseReport {
    let r = remote_check_inner(ctx, part, cfg, genome);
    if r.failures.iter().any(|f| f.signature.starts_with("process-died") || f.signature == "hang") { describe(ctx, part, genome, r) } else { r }
}

fn remote_check_inner(ctx: &Ctx, part: &Part, cfg: RemoteCfg, genome: &[u16]) -> CaseReport {
    match one_try(ctx, part, genome, cfg.timeout_s) {
        Res::Ok(r) => r,
        Res::Died(how) => {
            // confirm on a fresh child so a previous case cannot be blamed
            match one_try(ctx, part, genome, cfg.timeout_s) {
                Res::Ok(r) => r, // not reproducible on its own: do not blame this input
                Res::Died(h2) => { let mut r = CaseReport::default(); r.fail(format!("process-died:{h2}"), format!("worker child died ({how}, then {h2}) on this input")); r }
                Res::Timeout => { let mut r = CaseReport::default(); r.fail("hang", "worker child died then hung on this input"); r }
            }
        }
        Res::Timeout => match one_try(ctx, part, genome, cfg.timeout_s * 4) {
            Res::Ok(r) => r,
            Res::Died(h) => { let mut r = CaseReport::default(); r.fail(format!("process-died:{h}"), "worker child hung then died on this input"); r }
            Res::Timeout => { let mut r = CaseReport::default(); r.fail("hang", format!("no result within {} s then {} s", cfg.timeout_s, cfg.timeout_s * 4)); r }
        },
    }
}

/// child side: read genomes, run the check on a thread with the configured stack, print reports
pub fn serve(ctx: &Ctx, part: &Part, cfg: RemoteCfg) {
    // bounded memory: a runaway allocation in the code under test aborts this child (recorded
    // against the case) instead of exhausting the machine
    let lim = libc::rlimit { rlim_cur: cfg.mem_bytes as libc::rlim_t, rlim_max: cfg.mem_bytes as libc::rlim_t };
    unsafe { libc::setrlimit(libc::RLIMIT_AS, &lim); }
    let stdin = std::io::stdin();
    let mut line = String::new();
    loop {
        line.clear();
        match stdin.lock().read_line(&mut line) { Ok(0) | Err(_) => break, _ => {} }
        let t = line.trim();
        let genome: Vec<u16> = (0..t.len() / 4).filter_map(|i| u16::from_str_radix(&t[4 * i..4 * i + 4], 16).ok()).collect();
        let rep = std::thread::scope(|s| {
            std::thread::Builder::new().stack_size(cfg.stack_bytes).spawn_scoped(s, || crate::run::run_check_local(ctx, part, &genome)).expect("spawn").join()
                .unwrap_or_else(|_| { let mut r = CaseReport::default(); r.fail("panic-in-worker-thread", "join failed"); r })
        });
        let out = std::io::stdout();
        let mut lock = out.lock();
        let _ = writeln!(lock, "{}", report_to_json(&rep));
        let _ = lock.flush();
    }
}
