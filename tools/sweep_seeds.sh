#!/bin/bash
# tools/sweep_seeds.sh <worktree of /repo> <out file> <id/X[:check,check]> ...
# Re-runs stored seeded changes against the current checks (one scratch worktree, /repo untouched) and
# appends one line per seed to <out file>: which check reported it, or MISSED.
HERE="$(cd "$(dirname "$0")/.." && pwd)"
WT="$1"; OUT="$2"; shift 2
for item in "$@"; do
  seed="${item%%:*}"; checks="${item#*:}"; id="${seed%%/*}"; x="${seed##*/}"
  [ "$checks" = "$item" ] && checks="$id"
  res=$("$HERE/tools/try_seed_wt.sh" "$id" "$x" "$WT" ${checks//,/ } 2>&1 | grep "^SEED")
  if echo "$res" | grep -q "rc=1 VIOLATION"; then echo "$seed caught-by $(echo "$res" | grep 'rc=1' | sed 's/.*check=\([A-Z0-9]*\).*/\1/' | tr '\n' ' ')" >> "$OUT"; else echo "$seed MISSED ($(echo "$res" | tr '\n' ' ' | cut -c1-200))" >> "$OUT"; fi
done
echo "SWEEP-DONE" >> "$OUT"
