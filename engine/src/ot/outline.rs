//! Outline comparison: explicit point sequences (implied on-curves expanded), cyclic matching up
//! to start point and direction, and sampled Hausdorff distance for cubic sources.
pub type P = (f64, f64, bool);

/// insert implied on-curve points between consecutive off-curve points (cyclic)
pub fn expand_implied(c: &[P]) -> Vec<(f64, f64, bool, bool)> {
    // (x, y, on, implied)
    let n = c.len();
    let mut out = Vec::with_capacity(n * 2);
    for i in 0..n {
        let p = c[i];
        out.push((p.0, p.1, p.2, false));
        let q = c[(i + 1) % n];
        if !p.2 && !q.2 && n > 1 { out.push(((p.0 + q.0) / 2.0, (p.1 + q.1) / 2.0, true, true)); }
    }
    out
}

/// best max-deviation between two cyclic sequences over all rotations and both directions;
/// returns None if lengths or on/off patterns can never match
pub fn cyclic_deviation(exp: &[(f64, f64, bool, bool)], act: &[(f64, f64, bool, bool)], implied_slack: f64) -> Option<f64> {
    let n = exp.len();
    if n != act.len() || n == 0 { return None; }
    let mut best: Option<f64> = None;
    for rev in [false, true] {
        for rot in 0..n {
            let mut worst = 0.0f64;
            let mut ok = true;
            for i in 0..n {
                let e = exp[i];
                let j = if rev { (rot + n - i) % n } else { (rot + i) % n };
                let a = act[j];
                if e.2 != a.2 { ok = false; break; }
                let slack = if e.3 || a.3 { implied_slack } else { 0.0 };
                let d = ((e.0 - a.0).abs() - slack).max((e.1 - a.1).abs() - slack).max(0.0);
                if d > worst { worst = d; }
                if let Some(b) = best { if worst >= b { ok = false; break; } }
            }
            if ok { best = Some(best.map_or(worst, |b: f64| b.min(worst))); }
        }
    }
    best
}

/// match every expected contour to a distinct actual contour; returns (max deviation, unmatched description)
pub fn match_contours(exp: &[Vec<P>], act: &[Vec<P>], implied_slack: f64) -> Result<f64, String> {
    if exp.len() != act.len() { return Err(format!("contour count: expected {} got {}", exp.len(), act.len())); }
    let ee: Vec<_> = exp.iter().map(|c| expand_implied(c)).collect();
    let aa: Vec<_> = act.iter().map(|c| expand_implied(c)).collect();
    let mut used = vec![false; aa.len()];
    let mut worst = 0.0f64;
    for (i, e) in ee.iter().enumerate() {
        let mut best: Option<(usize, f64)> = None;
        for (j, a) in aa.iter().enumerate() {
            if used[j] { continue; }
            if let Some(d) = cyclic_deviation(e, a, implied_slack) { if best.map_or(true, |(_, b)| d < b) { best = Some((j, d)); } }
        }
        match best {
            Some((j, d)) => { used[j] = true; worst = worst.max(d); }
            None => return Err(format!("expected contour {i} ({} points after expanding implied points) has no structural match among {:?}", e.len(), aa.iter().map(|a| a.len()).collect::<Vec<_>>())),
        }
    }
    Ok(worst)
}

#[derive(Clone, Debug)]
pub enum Seg { Line((f64, f64), (f64, f64)), Quad((f64, f64), (f64, f64), (f64, f64)), Cubic((f64, f64), (f64, f64), (f64, f64), (f64, f64)) }

impl Seg {
    pub fn at(&self, t: f64) -> (f64, f64) {
        let u = 1.0 - t;
        match self {
            Seg::Line(a, b) => (a.0 * u + b.0 * t, a.1 * u + b.1 * t),
            Seg::Quad(a, c, b) => (u * u * a.0 + 2.0 * u * t * c.0 + t * t * b.0, u * u * a.1 + 2.0 * u * t * c.1 + t * t * b.1),
            Seg::Cubic(a, c1, c2, b) => (u * u * u * a.0 + 3.0 * u * u * t * c1.0 + 3.0 * u * t * t * c2.0 + t * t * t * b.0,
                                          u * u * u * a.1 + 3.0 * u * u * t * c1.1 + 3.0 * u * t * t * c2.1 + t * t * t * b.1),
        }
    }
}

/// TrueType contour (explicit or implied on-curves) -> quadratic / line segments
pub fn tt_segments(c: &[P]) -> Vec<Seg> {
    let e = expand_implied(c);
    let n = e.len();
    let mut segs = vec![];
    let Some(s) = e.iter().position(|p| p.2) else { return segs };
    let mut i = s;
    let mut cur = (e[s].0, e[s].1);
    while i - s < n {
        let nx = e[(i + 1) % n];
        if nx.2 { segs.push(Seg::Line(cur, (nx.0, nx.1))); cur = (nx.0, nx.1); i += 1; }
        else { let end = e[(i + 2) % n]; segs.push(Seg::Quad(cur, (nx.0, nx.1), (end.0, end.1))); cur = (end.0, end.1); i += 2; }
    }
    segs
}

pub fn sample(segs: &[Seg], per: usize) -> Vec<(f64, f64)> {
    let mut out = vec![];
    for s in segs { for k in 0..=per { out.push(s.at(k as f64 / per as f64)); } }
    out
}

fn dist_to_polyline(p: (f64, f64), poly: &[(f64, f64)]) -> f64 {
    let n = poly.len();
    let mut best = f64::MAX;
    for i in 0..n {
        let (a, b) = (poly[i], poly[(i + 1) % n]);
        let (dx, dy) = (b.0 - a.0, b.1 - a.1);
        let l2 = dx * dx + dy * dy;
        let t = if l2 == 0.0 { 0.0 } else { (((p.0 - a.0) * dx + (p.1 - a.1) * dy) / l2).clamp(0.0, 1.0) };
        let (qx, qy) = (a.0 + t * dx, a.1 + t * dy);
        let d = ((p.0 - qx).powi(2) + (p.1 - qy).powi(2)).sqrt();
        if d < best { best = d; }
    }
    best
}

/// symmetric Hausdorff distance between two closed curves given as segment lists
pub fn hausdorff(a: &[Seg], b: &[Seg]) -> f64 {
    let (pa, pb) = (sample(a, 24), sample(b, 24));
    if pa.is_empty() || pb.is_empty() { return if pa.is_empty() && pb.is_empty() { 0.0 } else { f64::MAX }; }
    let d1 = pa.iter().map(|p| dist_to_polyline(*p, &pb)).fold(0.0, f64::max);
    let d2 = pb.iter().map(|p| dist_to_polyline(*p, &pa)).fold(0.0, f64::max);
    d1.max(d2)
}

pub fn ot_round(v: f64) -> f64 { (v + 0.5).floor() }
