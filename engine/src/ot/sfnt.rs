//! Raw sfnt container checks over bytes (directory order, alignment, padding, checksums).
pub fn be16(d: &[u8], o: usize) -> Option<u16> { d.get(o..o + 2).map(|b| u16::from_be_bytes([b[0], b[1]])) }
pub fn be32(d: &[u8], o: usize) -> Option<u32> { d.get(o..o + 4).map(|b| u32::from_be_bytes([b[0], b[1], b[2], b[3]])) }

pub fn table_checksum(d: &[u8]) -> u32 {
    let mut sum = 0u32;
    for chunk in d.chunks(4) { let mut w = [0u8; 4]; w[..chunk.len()].copy_from_slice(chunk); sum = sum.wrapping_add(u32::from_be_bytes(w)); }
    sum
}

/// returns a list of problems (signature, detail)
pub fn check_container(d: &[u8]) -> Vec<(String, String)> {
    let mut out = vec![];
    let mut bad = |s: &str, m: String| out.push((s.to_string(), m));
    let Some(ver) = be32(d, 0) else { bad("sfnt-truncated", "no header".into()); return out; };
    if ver != 0x00010000 { bad("sfnt-version", format!("{ver:#x} (TrueType flavour expected)")); }
    let n = be16(d, 4).unwrap_or(0) as usize;
    if n == 0 { bad("sfnt-no-tables", String::new()); return out; }
    let (sr, es, rs) = (be16(d, 6).unwrap_or(0), be16(d, 8).unwrap_or(0), be16(d, 10).unwrap_or(0));
    let mut p = 1usize; let mut l = 0u16; while p * 2 <= n { p *= 2; l += 1; }
    if sr as usize != p * 16 || es != l || rs as usize != n * 16 - p * 16 { bad("sfnt-search-fields", format!("numTables {n}: searchRange {sr} entrySelector {es} rangeShift {rs}")); }
    let mut prev_tag: Option<[u8; 4]> = None;
    let mut spans: Vec<(usize, usize, [u8; 4])> = vec![];
    let mut head: Option<(usize, usize)> = None;
    for i in 0..n {
        let o = 12 + 16 * i;
        let Some(rec) = d.get(o..o + 16) else { bad("sfnt-truncated", format!("directory entry {i}")); return out; };
        let tag = [rec[0], rec[1], rec[2], rec[3]];
        let (sum, off, len) = (be32(rec, 4).unwrap(), be32(rec, 8).unwrap() as usize, be32(rec, 12).unwrap() as usize);
        if let Some(pt) = prev_tag { if pt >= tag { bad("sfnt-directory-not-sorted", format!("{:?} then {:?}", String::from_utf8_lossy(&pt), String::from_utf8_lossy(&tag))); } }
        prev_tag = Some(tag);
        if off % 4 != 0 { bad("sfnt-table-not-aligned", format!("{} at {off}", String::from_utf8_lossy(&tag))); }
        let Some(body) = d.get(off..off + len) else { bad("sfnt-table-out-of-file", format!("{} {off}+{len} > {}", String::from_utf8_lossy(&tag), d.len())); continue; };
        let padded_end = (off + len + 3) & !3;
        if padded_end > d.len() { bad("sfnt-missing-padding", format!("{} ends at {} file {}", String::from_utf8_lossy(&tag), off + len, d.len())); }
        else if d[off + len..padded_end].iter().any(|b| *b != 0) { bad("sfnt-nonzero-padding", String::from_utf8_lossy(&tag).to_string()); }
        let mut calc = table_checksum(body);
        if &tag == b"head" { head = Some((off, len)); if len >= 12 { calc = calc.wrapping_sub(be32(body, 8).unwrap()); } }
        if calc != sum { bad("sfnt-table-checksum", format!("{}: directory {sum:#x} computed {calc:#x}", String::from_utf8_lossy(&tag))); }
        spans.push((off, off + len, tag));
    }
    spans.sort();
    for w in spans.windows(2) { if w[0].1 > w[1].0 { bad("sfnt-tables-overlap", format!("{} and {}", String::from_utf8_lossy(&w[0].2), String::from_utf8_lossy(&w[1].2))); } }
    if let Some((off, len)) = head {
        if len >= 12 {
            let adj = be32(d, off + 8).unwrap();
            let mut copy = d.to_vec();
            copy[off + 8..off + 12].copy_from_slice(&[0; 4]);
            let want = 0xB1B0AFBAu32.wrapping_sub(table_checksum(&copy));
            if adj != want { bad("head-checksum-adjustment", format!("stored {adj:#x} expected {want:#x}")); }
        }
    } else { bad("sfnt-no-head", String::new()); }
    out
}
