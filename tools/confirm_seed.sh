#!/bin/bash
# tools/confirm_seed.sh <Cxx> <X> [crate (default: parsed from notes.md "cargo test -p <crate>")]
# Confirms a seeded change delivered by a sub-agent in /tmp/wt/<Cxx>/seed_out/<X>: demo passes on clean
# HEAD, fails with the patch, workspace suite with the patch fails only the 3 ttx-dependent fea-rs tests.
# On success copies the delivery to /verif/seeded/<Cxx>/<X>/ and writes meta.json there.
set -u
HERE="$(cd "$(dirname "$0")/.." && pwd)"
ID="$1"; X="$2"
WT="/tmp/wt/$ID"; SRC="$WT/seed_out/$X"
DEMO="$(ls "$SRC"/*.rs | head -1)"; NAME="$(basename "$DEMO" .rs)"
CRATE="${3:-$(grep -o 'cargo test -p [a-z0-9-]*' "$SRC/notes.md" | head -1 | awk '{print $4}')}"
[ -z "$CRATE" ] && CRATE=fontc
cd "$WT" || exit 2
git checkout -q -- . ; rm -f "$CRATE/tests/$NAME.rs"
LOG="$HERE/target/confirm-$ID-$X.log"; mkdir -p "$HERE/target"; : > "$LOG"
mkdir -p "$CRATE/tests"; cp "$DEMO" "$CRATE/tests/$NAME.rs"
cargo test -p "$CRATE" --offline -j 8 --test "$NAME" >>"$LOG" 2>&1; clean_rc=$?
git apply "$SRC/patch.diff" || { echo "RESULT $ID/$X patch does not apply"; rm -f "$CRATE/tests/$NAME.rs"; exit 2; }
cargo test -p "$CRATE" --offline -j 8 --test "$NAME" >>"$LOG" 2>&1; patched_rc=$?
rm -f "$CRATE/tests/$NAME.rs"
cargo test --workspace --offline --no-fail-fast -j 8 >"$LOG.suite" 2>&1
passed=$(grep -h "^test result" "$LOG.suite" | sed 's/.* \([0-9]*\) passed.*/\1/' | paste -sd+ | bc)
failed=$(grep -h "^test result" "$LOG.suite" | sed 's/.*; \([0-9]*\) failed.*/\1/' | paste -sd+ | bc)
failing=$(grep -h "^test [^ ]* \.\.\. FAILED" "$LOG.suite" | awk '{print $2}' | sort | paste -sd, )
git checkout -q -- .
echo "RESULT $ID/$X crate=$CRATE demo=$NAME clean_rc=$clean_rc patched_rc=$patched_rc suite passed=$passed failed=$failed failing=[$failing]" | tee -a "$LOG"
ok=0
if [ "$clean_rc" = 0 ] && [ "$patched_rc" != 0 ] && [ "$failing" = "tests::compile::fonttools_tests,tests::compile::import_resolution,tests::compile::should_pass" ]; then ok=1; fi
if [ $ok = 1 ]; then
  DEST="${4:-$X}"; D="$HERE/seeded/$ID/$DEST"; mkdir -p "$D"; cp "$SRC"/* "$D"/ 2>/dev/null
  python3 - "$ID" "${4:-$X}" "$CRATE" "$NAME" "$clean_rc" "$patched_rc" "$passed" "$failed" "$D" <<'PY'
import json,sys,re
i,x,crate,name,c,p,pa,fa,d=sys.argv[1:]
notes=open(d+'/notes.md').read()
def first_para(after):
    m=re.search(after+r'.*?\n\n(.*?)\n\n', notes, re.S|re.I)
    return ' '.join(m.group(1).split())[:600] if m else ''
meta={"property":i,"change":x,"breaks":first_para(r'^#+ .*(change|what)') or notes.split('\n')[0],
 "needs_to_manifest":first_para(r'^#+ .*(manifest|needs)'),
 "demonstration":{"file":name+'.rs',"placement":crate+'/tests/',"command":f"cargo test -p {crate} --offline --test {name}"},
 "confirmed":{"how":"tools/confirm_seed.sh: applied patch.diff in the scratch worktree of /repo HEAD; ran the demonstration before and after; ran cargo test --workspace --offline --no-fail-fast with the patch",
   "demo_on_clean_tree":"pass" if c=='0' else "fail","demo_with_change":"fail" if p!='0' else "pass",
   "suite_with_change":f"{pa} passed, {fa} failed (exactly the three fea-rs tests that need the ttx executable, which fail identically on the unmodified tree)"},
 "origin":"sub-agent given only the property text and a scratch worktree"}
json.dump(meta,open(d+'/meta.json','w'),indent=1)
PY
  echo "CONFIRMED $ID/$X"
else
  echo "NOT CONFIRMED $ID/$X (see $LOG)"
fi
