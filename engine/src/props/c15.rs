//! C15 — Bad input ends in a reported error, never a crash, hang or bogus font.
use crate::genome::{fnv_str, Gen};
use crate::ot::validate::check_font;
use crate::props::c03::describe;
use crate::props::c05::all_facets;
use crate::props::c13::LEXICON;
use crate::run::{CaseReport, Ctx, Part, Tier};
use crate::synth::build::Scratch;
use crate::synth::corpus::fixtures;
use crate::synth::model::*;
use crate::synth::ufo;
use serde_json::json;
use std::collections::BTreeMap;
use std::os::unix::process::{CommandExt, ExitStatusExt};
use std::path::{Path, PathBuf};
use std::process::{Command, Stdio};
use std::time::{Duration, Instant};

pub enum Outcome { Built(Vec<u8>), Reported(String), Violation(String, String) }

/// run the fontc binary on `source` with a watchdog and an address-space limit
pub fn run_fontc(bin: &Path, source: &Path, work: &Path, extra: &[&str], timeout_s: u64) -> Outcome {
    let out = work.join("out.ttf");
    let _ = std::fs::remove_file(&out);
    let mut cmd = Command::new(bin);
    cmd.arg(source).arg("-o").arg(&out).arg("--build-dir").arg(work.join("build")).args(extra).arg("--log").arg("error")
        .env("RAYON_NUM_THREADS", "4").env("RUST_BACKTRACE", "0").stdin(Stdio::null()).stdout(Stdio::null()).stderr(Stdio::piped());
    unsafe { cmd.pre_exec(|| { let lim = libc::rlimit { rlim_cur: 4 << 30, rlim_max: 4 << 30 }; libc::setrlimit(libc::RLIMIT_AS, &lim); Ok(()) }); }
    let mut child = match cmd.spawn() { Ok(c) => c, Err(e) => return Outcome::Violation("harness-cannot-spawn".into(), e.to_string()) };
    let t0 = Instant::now();
    let status = loop {
        match child.try_wait() { Ok(Some(s)) => break Some(s), Ok(None) => {}, Err(_) => break None }
        if t0.elapsed() > Duration::from_secs(timeout_s) { let _ = child.kill(); let _ = child.wait(); return Outcome::Violation("hang".into(), format!("no exit within {timeout_s} s (a normal build takes well under a second)")); }
        std::thread::sleep(Duration::from_millis(3));
    };
    let mut stderr = String::new();
    if let Some(mut e) = child.stderr.take() { use std::io::Read; let mut b = Vec::new(); let _ = e.read_to_end(&mut b); stderr = String::from_utf8_lossy(&b).to_string(); }
    let Some(status) = status else { return Outcome::Violation("harness-wait-failed".into(), String::new()) };
    let font = std::fs::read(&out).ok();
    if let Some(sig) = status.signal() {
        let what = if stderr.contains("overflowed its stack") { "stack-overflow".to_string() } else if stderr.contains("memory allocation") { "out-of-memory".to_string() } else { format!("signal-{sig}") };
        return Outcome::Violation(format!("killed:{what}"), stderr.lines().rev().take(3).collect::<Vec<_>>().join(" | "));
    }
    match status.code() {
        Some(0) => match font {
            None => Outcome::Violation("success-status-without-font".into(), stderr),
            Some(b) => Outcome::Built(b),
        },
        Some(1) => {
            if font.is_some() { return Outcome::Violation("failure-status-but-font-written".into(), stderr.lines().last().unwrap_or("").to_string()); }
            if stderr.trim().is_empty() { return Outcome::Violation("failure-status-without-diagnostic".into(), String::new()); }
            Outcome::Reported(stderr.lines().last().unwrap_or("").to_string())
        }
        Some(101) => {
            // a panic that escaped on the main thread
            let mut site = String::new(); let mut msg = String::new();
            let lines: Vec<&str> = stderr.lines().collect();
            for (i, l) in lines.iter().enumerate() { if let Some(rest) = l.split("panicked at ").nth(1) { site = rest.split(':').next().unwrap_or("").to_string(); msg = lines.get(i + 1).unwrap_or(&"").to_string(); break; } }
            let site = site.rsplit_once("/src/").map(|(a, b)| format!("{}/{}", a.rsplit('/').next().unwrap_or(""), b)).unwrap_or(site);
            let short: String = msg.split(['`', '\'', '"', ':']).next().unwrap_or("").chars().take(40).collect();
            Outcome::Violation(format!("panic-exit-101:{site}:{}", crate::run::normalize_sig(short.trim())), format!("{msg} [{}]", stderr.lines().last().unwrap_or("")))
        }
        other => Outcome::Violation(format!("unexpected-exit-status-{other:?}"), stderr.lines().last().unwrap_or("").to_string()),
    }
}

pub fn fontc_bin(release: bool) -> PathBuf {
    PathBuf::from(std::env::var(if release { "VF_FONTC_REL" } else { "VF_FONTC_DEV" }).unwrap_or_else(|_| format!("/verif/target/cli/{}/fontc", if release { "release" } else { "debug" })))
}

fn char_floor(s: &str, mut i: usize) -> usize { i = i.min(s.len()); while !s.is_char_boundary(i) { i -= 1; } i }

const BAD_NUMBERS: &[&str] = &["1e400", "-1e400", "NaN", "nan", "inf", "", "99999999999999999999", "-99999999999", "0x10", "1.5.2", "70000", "-70000", "1e-400", "٣"];

/// text-level mutations of one file of a source tree; returns the class name
pub fn mutate_file(g: &mut Gen, text: &str) -> (String, String) {
    let mut t = text.to_string();
    if t.is_empty() { return (t, "empty-file".into()); }
    let a = char_floor(&t, (g.word() as usize * t.len()) >> 16);
    let class = match g.below(11) {
        0 => { t.truncate(a); "truncate" }
        1 => { // replace a numeric attribute value near a
            let tail = &t[a..];
            if let Some(q) = tail.find("=\"") { let s = a + q + 2; if let Some(e) = t[s..].find('"') { let old = t[s..s + e].to_string(); if old.chars().all(|c| c.is_ascii_digit() || c == '.' || c == '-') && !old.is_empty() { t.replace_range(s..s + e, *g.pick(BAD_NUMBERS)); } else { t.replace_range(s..s + e, ""); } } }
            "number-or-attribute-value"
        }
        2 => { // delete a line
            let ls = t[..a].rfind('\n').map(|i| i + 1).unwrap_or(0); let le = t[a..].find('\n').map(|i| a + i + 1).unwrap_or(t.len()); t.replace_range(ls..le, ""); "delete-line" }
        3 => { let ls = t[..a].rfind('\n').map(|i| i + 1).unwrap_or(0); let le = t[a..].find('\n').map(|i| a + i + 1).unwrap_or(t.len()); let l = t[ls..le].to_string(); t.insert_str(le, &l); "duplicate-line" }
        4 => { let b = char_floor(&t, a + 1 + g.below(40)); t.replace_range(a..b, ""); "delete-bytes" }
        5 => { let ins = ["<", ">", "\"", "&", "{", "}", "(", ")", ";", "=", "\u{0}", "\u{feff}", "</dict>", "<dict>", "<array>", "<key>", "]]>"]; t.insert_str(a, *g.pick(&ins)); "insert-syntax-char" }
        6 => { // rename an attribute / key near a
            let tail = &t[a..]; if let Some(q) = tail.find(|c: char| c.is_ascii_alphabetic()) { let s = a + q; t.insert(s, 'x'); } "rename-word" }
        7 => { let n = 1usize << g.below(12); let open = *g.pick(&["<dict>", "<array>", "(", "{", "<contour>"]); t.insert_str(a, &open.repeat(n)); "deep-nesting" }
        8 => { let b = char_floor(&t, a + g.below(200)); let seg = t[a..b].to_string(); for _ in 0..(1 + g.below(20)) { t.insert_str(b, &seg); } "repeat-segment" }
        9 => { // plist numbers: <integer>N</integer> / <real>N</real> near a
            let tail = &t[a..];
            let hit = ["<integer>", "<real>"].iter().filter_map(|tag| tail.find(tag).map(|i| (i, *tag))).min();
            match hit { Some((i, tag)) => { let s = a + i; if let Some(e) = t[s..].find("</") { let close_end = t[s + e..].find('>').map(|c| s + e + c + 1).unwrap_or(t.len());
                    let bad = *g.pick(BAD_NUMBERS); let repl = if g.chance(1, 2) { format!("<real>{bad}</real>") } else { format!("{tag}{bad}{}", tag.replace('<', "</")) }; t.replace_range(s..close_end, &repl); } }
                None => { let _ = g.word(); let _ = g.word(); } }
            "plist-number"
        }
        _ => { t = t.replace("type=\"line\"", if g.chance(1, 2) { "type=\"curve\"" } else { "type=\"bogus\"" }); "point-types" }
    };
    (t, class.into())
}

/// model-level structural mutations (component graphs, designspace shape)
fn mutate_model(g: &mut Gen, f: &mut SynthFont) -> String {
    let n = f.glyphs.len();
    let names: Vec<String> = f.glyphs.iter().map(|x| x.name.clone()).collect();
    match g.below(9) {
        7 => { // a cycle that exists only through a non-default master: there glyph i is a composite of j, which uses i everywhere
            if n >= 2 { let i = g.below(n); let j = (i + 1 + g.below(n - 1)) % n; let (a, b) = (names[i].clone(), names[j].clone());
                let ks: Vec<usize> = f.glyphs[i].sources.keys().copied().filter(|k| *k != 0).collect();
                if let Some(&k) = ks.first() { if let Some(s) = f.glyphs[i].sources.get_mut(&k) { s.contours.clear(); s.comps = vec![Comp { base: b.clone(), xf: IDENT }]; } }
                for s in f.glyphs[j].sources.values_mut() { s.comps.push(Comp { base: a.clone(), xf: [1.0, 0.0, 0.0, 1.0, 3.0, 0.0] }); } }
            "component-cycle-in-one-master".into() }
        8 => { // the glyph every font must have is marked as not exported
            if let Some(gl) = f.glyphs.iter_mut().find(|x| x.name == ".notdef") { gl.export = false; }
            if !f.skip_export.iter().any(|x| x == ".notdef") { f.skip_export.push(".notdef".into()); }
            "notdef-not-exported".into() }
        0 => { let i = g.below(n); let me = names[i].clone(); for s in f.glyphs[i].sources.values_mut() { s.comps.push(Comp { base: me.clone(), xf: IDENT }); } "component-self-reference".into() }
        1 => { if n >= 2 { let i = g.below(n); let j = (i + 1 + g.below(n - 1)) % n; let (a, b) = (names[i].clone(), names[j].clone());
                for s in f.glyphs[i].sources.values_mut() { s.comps = vec![Comp { base: b.clone(), xf: IDENT }]; s.contours.clear(); }
                for s in f.glyphs[j].sources.values_mut() { s.comps = vec![Comp { base: a.clone(), xf: IDENT }]; s.contours.clear(); } }
            "component-2-cycle".into() }
        2 => { if n >= 3 { for i in 0..n { let nxt = names[(i + 1) % n].clone(); for s in f.glyphs[i].sources.values_mut() { s.comps.push(Comp { base: nxt.clone(), xf: [1.0, 0.0, 0.0, 1.0, 5.0, 0.0] }); } } } "component-long-cycle".into() }
        3 => { if n >= 2 { let i = g.below(n); let j = (i + 1) % n; f.glyphs[j].export = false; if !f.skip_export.contains(&names[j]) { f.skip_export.push(names[j].clone()); }
                let (a, b) = (names[i].clone(), names[j].clone());
                for s in f.glyphs[i].sources.values_mut() { s.comps.push(Comp { base: b.clone(), xf: IDENT }); }
                for s in f.glyphs[j].sources.values_mut() { s.comps.push(Comp { base: a.clone(), xf: IDENT }); } }
            "component-cycle-through-non-export".into() }
        4 => { if f.sources.len() >= 2 { let l = f.sources[0].norm.clone(); let k = 1 + g.below(f.sources.len() - 1); if f.sources[k].layer.is_none() { f.sources[k].norm = l; } } "two-masters-at-one-location".into() }
        5 => { for s in f.sources.iter_mut().skip(1) { if let Some(n0) = s.norm.first_mut() { if *n0 == 0.0 { *n0 = 0.5; } } } if let Some(s0) = f.sources.first_mut() { if let Some(n0) = s0.norm.first_mut() { *n0 = 0.5; } } "no-master-at-default".into() }
        _ => { let i = g.below(n); for s in f.glyphs[i].sources.values_mut() { for c in &mut s.comps { c.xf[0] = f64::NAN; } s.advance = -5.0; } "nan-transform-negative-advance".into() }
    }
}

fn judge(rep: &mut CaseReport, class: &str, outcome: Outcome) -> &'static str {
    match outcome {
        Outcome::Built(bytes) => {
            let (problems, _) = check_font(&bytes);
            // a font reported as built must be a font
            if let Some((sig, d)) = problems.iter().find(|(s, _)| s.starts_with("sfnt-") || s == "required-table-missing" || s == "table-unparseable" || s == "offset-unresolvable" || s.starts_with("glyph-count") || s == "component-cycle" || s == "head-units-per-em-out-of-range") {
                rep.fail(format!("bogus-font-reported-as-built:{sig}"), format!("[{class}] {d}"));
            }
            "built"
        }
        Outcome::Reported(_) => "reported-error",
        Outcome::Violation(sig, d) => { rep.fail(sig, format!("[{class}] {d}")); "violation" }
    }
}

pub fn check_synth(ctx: &Ctx, genome: &[u16]) -> CaseReport {
    let mut rep = CaseReport::default();
    let mut g = Gen::new(genome);
    let mut mg = g.fork(40);
    let mut f = SynthFont::decode(&genome[40.min(genome.len())..], &Profile { max_glyphs: 8, ..all_facets() });
    let mut classes = vec![];
    let structural = mg.chance(1, 2);
    if structural { classes.push(mutate_model(&mut mg, &mut f)); } else { mg.word(); mg.word(); }
    let mut files = ufo::render(&f);
    let n_text = if structural { mg.below(2) } else { 1 + mg.below(3) };
    for _ in 0..n_text {
        let keys: Vec<String> = files.keys().cloned().collect();
        let k = keys[mg.below(keys.len())].clone();
        match mg.below(12) {
            0 => { files.remove(&k); classes.push(format!("drop-file:{}", k.rsplit('/').next().unwrap_or(&k).split('.').last().unwrap_or(""))); }
            1 => { let soup: String = (0..1 + mg.below(30)).map(|_| format!("{} ", mg.pick(LEXICON))).collect(); files.insert("M0.ufo/features.fea".into(), soup); classes.push("fea-token-soup".into()); }
            4 | 5 => { // a feature file of the repository's own test data as this font's features, damaged by 1-2 edits
                let corpus = crate::props::c13::corpus(ctx);
                if !corpus.files.is_empty() {
                    let (_, text) = &corpus.files[mg.below(corpus.files.len())];
                    let mut t = text.clone(); let mut cs = vec![];
                    // leave a block unclosed: drop one line that closes one
                    if mg.chance(1, 2) {
                        let closers: Vec<(usize, usize)> = { let mut v = vec![]; let mut off = 0; for l in t.split_inclusive('\n') { if l.trim_start().starts_with('}') { v.push((off, off + l.len())); } off += l.len(); } v };
                        if !closers.is_empty() { let (a, b) = closers[mg.below(closers.len())]; t.replace_range(a..b, ""); cs.push("unclosed-block".to_string()); }
                    } else { mg.word(); }
                    for _ in 0..mg.below(2) + if cs.is_empty() { 1 } else { 0 } { let (t2, c) = mutate_file(&mut mg, &t); t = t2; cs.push(c); }
                    files.insert("M0.ufo/features.fea".into(), t);
                    classes.push(format!("fea-corpus-file+{}", cs.join("+")));
                }
            }
            3 => { // a numeric fontinfo field of some master becomes a number that is not one
                let infos: Vec<String> = files.keys().filter(|k| k.ends_with("fontinfo.plist")).cloned().collect();
                if !infos.is_empty() {
                    let fi = infos[mg.below(infos.len())].clone();
                    let t = files[&fi].clone();
                    let keys: Vec<usize> = t.match_indices("<key>").map(|(i, _)| i).collect();
                    let numeric: Vec<usize> = keys.iter().copied().filter(|i| { let rest = &t[*i..]; rest.find("</key>").map(|e| rest[e + 6..].trim_start().starts_with("<integer>") || rest[e + 6..].trim_start().starts_with("<real>")).unwrap_or(false) }).collect();
                    if !numeric.is_empty() {
                        let at = if mg.chance(1, 3) { numeric[0] } else { numeric[mg.below(numeric.len())] }; // the first numeric key is unitsPerEm
                        let key_end = at + t[at..].find("</key>").unwrap() + 6;
                        let val_start = key_end + t[key_end..].find('<').unwrap();
                        let val_end = val_start + t[val_start..].find("</").unwrap(); let val_end = val_end + t[val_end..].find('>').unwrap() + 1;
                        let key = t[at + 5..key_end - 6].to_string();
                        let bad = if mg.chance(1, 2) { *mg.pick(&["nan", "NaN", "inf", "-inf"]) } else { *mg.pick(&["1e400", "0", "-1", "15", "16385", "70000", "-70000", "1e9", "0.5", ""]) };
                        let mut nt = t.clone(); nt.replace_range(val_start..val_end, &format!("<real>{bad}</real>"));
                        files.insert(fi, nt);
                        classes.push(format!("fontinfo-number:{key}"));
                    }
                }
            }
            2 => { // include graphs next to the UFO: self-include of a non-root file, mutual includes, missing file
                let shape = mg.below(4);
                files.insert("M0.ufo/features.fea".into(), "languagesystem DFLT dflt;\ninclude(shared.fea);\n".into());
                files.insert("shared.fea".into(), match shape { 0 => "# shared\ninclude(shared.fea);\n".to_string(), 1 => "include(other.fea);\n".to_string(), 2 => "include(nowhere.fea);\n".to_string(), _ => "include(M0.ufo/features.fea);\n".to_string() });
                files.insert("other.fea".into(), "include(shared.fea);\n".into());
                classes.push(format!("fea-include-graph:{}", ["self-include", "mutual", "missing", "back-to-root"][shape])); }
            _ => { let (t, c) = mutate_file(&mut mg, &files[&k]); files.insert(k.clone(), t); classes.push(format!("{c}:{}", k.rsplit('/').next().unwrap_or(&k).split('.').last().unwrap_or(""))); }
        }
    }
    let class = classes.join("+");
    rep.key = fnv_str(&format!("{files:?}"));
    rep.sample = Some(json!({"mutations": classes, "font": describe(&f)}));
    for c in &classes { rep.class(c.split(':').next().unwrap_or(c).to_string()); }
    if ctx.dry { for (k, v) in files { rep.artifacts.push((k, v.into_bytes())); } return rep; }
    let scratch = Scratch::new(&ctx.work);
    let ds = ufo::write_tree(scratch.path(), &files).unwrap_or_else(|_| scratch.path().join("font.designspace"));
    let ds = if ds.exists() { ds } else { scratch.path().join("font.designspace") };
    let flags: &[&str] = match mg.below(5) { 0 => &["--flatten-components"], 1 => &["--decompose-components"], 2 => &["--prefer-simple-glyphs", "false"], _ => &[] };
    let outcome = run_fontc(&fontc_bin(false), &ds, scratch.path(), flags, 30);
    let kind = judge(&mut rep, &class, outcome);
    rep.class(format!("outcome:{kind}"));
    if ctx.tier == Tier::Thorough && kind != "violation" {
        let o2 = run_fontc(&fontc_bin(true), &ds, scratch.path(), flags, 30);
        let k2 = judge(&mut rep, &format!("release:{class}"), o2);
        if k2 != kind && k2 != "violation" { rep.fail("debug-and-release-disagree", format!("[{class}] debug {kind}, release {k2}")); }
    }
    rep.evals = 1;
    rep.nontrivial = kind != "built" || structural;
    if !rep.failures.is_empty() { for (k, v) in &files { rep.artifacts.push((k.clone(), v.clone().into_bytes())); } }
    rep
}

fn copy_tree(src: &Path, dst: &Path) -> std::io::Result<()> {
    if src.is_dir() { std::fs::create_dir_all(dst)?; for e in std::fs::read_dir(src)? { let e = e?; copy_tree(&e.path(), &dst.join(e.file_name()))?; } Ok(()) } else { std::fs::copy(src, dst).map(|_| ()) }
}

fn list_files(dir: &Path, out: &mut Vec<PathBuf>) { if let Ok(rd) = std::fs::read_dir(dir) { let mut es: Vec<PathBuf> = rd.filter_map(|e| e.ok()).map(|e| e.path()).collect(); es.sort(); for p in es { if p.is_dir() { list_files(&p, out); } else { out.push(p); } } } }

pub fn check_corpus(ctx: &Ctx, genome: &[u16]) -> CaseReport {
    let mut rep = CaseReport::default();
    let mut g = Gen::new(genome);
    let fx = fixtures(ctx);
    if fx.is_empty() { rep.discard = true; return rep; }
    let src = &fx[g.below(fx.len())];
    let rel = src.strip_prefix(&ctx.repo).unwrap_or(src).display().to_string();
    let scratch = Scratch::new(&ctx.work);
    // copy the fixture (and, for designspaces, its sibling UFOs) into the scratch dir
    let root = scratch.path().join("src");
    let target = if src.extension().map(|e| e == "designspace").unwrap_or(false) {
        let parent = src.parent().unwrap();
        let _ = std::fs::create_dir_all(&root);
        let text = std::fs::read_to_string(src).unwrap_or_default();
        let _ = std::fs::write(root.join(src.file_name().unwrap()), &text);
        for cap in text.split("filename=\"").skip(1) { if let Some(name) = cap.split('"').next() { let p = parent.join(name); if p.exists() && !name.contains("..") { let _ = copy_tree(&p, &root.join(name)); } } }
        for fea in ["features.fea", "static.fea"] { let p = parent.join(fea); if p.exists() { let _ = std::fs::copy(&p, root.join(fea)); } }
        root.join(src.file_name().unwrap())
    } else { let t = root.join(src.file_name().unwrap()); let _ = std::fs::create_dir_all(&root); let _ = copy_tree(src, &t); t };
    let mut all = vec![]; list_files(&root, &mut all);
    let texts: Vec<PathBuf> = all.into_iter().filter(|p| std::fs::metadata(p).map(|m| m.len() < 400_000).unwrap_or(false)).collect();
    if texts.is_empty() { rep.discard = true; return rep; }
    let mut classes = vec![];
    let n = 1 + g.below(3);
    for _ in 0..n {
        let p = &texts[g.below(texts.len())];
        let Ok(t) = std::fs::read_to_string(p) else { continue };
        if g.chance(1, 12) { let _ = std::fs::remove_file(p); classes.push("drop-file".to_string()); continue; }
        let (nt, c) = mutate_file(&mut g, &t);
        let _ = std::fs::write(p, nt);
        classes.push(format!("{c}:{}", p.extension().and_then(|e| e.to_str()).unwrap_or("")));
    }
    let class = classes.join("+");
    rep.key = fnv_str(&format!("{rel}{class}{:?}", &genome[..genome.len().min(12)]));
    rep.sample = Some(json!({"fixture": rel, "mutations": classes}));
    for c in &classes { rep.class(c.split(':').next().unwrap_or(c).to_string()); }
    if ctx.dry { return rep; }
    let outcome = run_fontc(&fontc_bin(false), &target, scratch.path(), &[], 60);
    let kind = judge(&mut rep, &class, outcome);
    rep.class(format!("outcome:{kind}"));
    rep.evals = 1;
    rep.nontrivial = kind != "built";
    if !rep.failures.is_empty() { let mut all = vec![]; list_files(&root, &mut all); for p in all.iter().take(60) { if let Ok(b) = std::fs::read(p) { if b.len() < 200_000 { rep.artifacts.push((p.strip_prefix(&root).unwrap_or(p).display().to_string(), b)); } } } }
    rep
}

/// stored literal case: a source tree next to case.json ("source/") and the entry file inside it
pub fn check_literal(ctx: &Ctx, v: &serde_json::Value) -> CaseReport {
    let mut rep = CaseReport::default();
    let dir = ctx.home.join(v["dir"].as_str().unwrap_or(""));
    let scratch = Scratch::new(&ctx.work);
    let root = scratch.path().join("src");
    if copy_tree(&dir.join("source"), &root).is_err() { rep.fail("literal-source-missing", dir.display().to_string()); return rep; }
    let entry = root.join(v["entry"].as_str().unwrap_or("font.designspace"));
    let flags: Vec<&str> = v["cli_args"].as_array().map(|a| a.iter().filter_map(|x| x.as_str()).collect()).unwrap_or_default();
    let outcome = run_fontc(&fontc_bin(false), &entry, scratch.path(), &flags, 60);
    judge(&mut rep, "literal", outcome);
    rep.evals = 1;
    rep
}

pub fn parts() -> Vec<Part> {
    vec![
        Part { name: "synth", genome_len: 1600, cases_quick: 2000, cases_thorough: 150_000, threads: 16, max_shrink_iters: 120, check: Box::new(check_synth), remote: None },
        Part { name: "corpus", genome_len: 40, cases_quick: 1000, cases_thorough: 100_000, threads: 16, max_shrink_iters: 60, check: Box::new(check_corpus), remote: None },
    ]
}
pub const RULE: &str = "synth: a generated valid source under a structural mutation of the model (component self-reference, 2-cycle, long cycle, cycle through a non-export glyph, a cycle that exists only in a non-default master, .notdef marked non-export, two masters at one location, no master at the default, NaN transform / negative advance) and/or 1-3 file mutations (drop a file, truncate, replace a number or attribute value by a huge / NaN / empty / non-ASCII one, delete or duplicate a line, delete bytes, insert syntax characters, rename a word, deep nesting, repeat a segment, change point types, FEA token soup, a feature file of the repository's test data under 1-2 such edits as the font's features); corpus: a copied fixture (UFO / designspace with its UFOs / Glyphs 2+3 / package / fontra) under 1-3 file mutations. Each case runs the fontc binary (30-60 s watchdog, 4 GiB address space). Accepted: exit 0 + a font that passes the container/required-table/traversal/count checks, or exit 1 + a diagnostic + no font. Violations: hang, death by signal (stack overflow, abort, OOM), exit 0 without font or with a bogus font, failure status with a font written, a panic escaping with status 101, any other status. non-trivial = outcome is not a normal build, or the mutation was structural; distinct = hash of the mutated tree";
pub const ASSUMPTIONS: &[&str] = &["a panic that escapes on the main thread (exit 101) counts as a crash: main.rs documents 'any Err -> message + exit 1' and job panics are deliberately converted to errors; panics inside jobs that arrive as exit 1 with a message are accepted", "the thorough tier repeats every case with the release binary and requires the same outcome kind"];
