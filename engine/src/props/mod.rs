pub mod c07;
pub mod c13;
pub mod c14;
pub mod c03;
pub mod c05;
pub mod c06;
pub mod c08;
pub mod c17;
