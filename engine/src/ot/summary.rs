//! C17: recompute header / summary fields from the tables they summarise.
use super::{Font, RawGlyph};
use read_fonts::TableProvider;

pub type Problems = Vec<(String, String)>;

struct GInfo { raw: RawGlyph, pts: usize, contours: usize, depth: usize, comp_elems: usize, ctrl_box: Option<[f64; 4]>, has_outline: bool }

fn bounds(contours: &[Vec<(f64, f64, bool)>]) -> Option<[f64; 4]> {
    let mut b: Option<[f64; 4]> = None;
    for c in contours { for p in c { b = Some(match b { None => [p.0, p.1, p.0, p.1], Some(b) => [b[0].min(p.0), b[1].min(p.1), b[2].max(p.0), b[3].max(p.1)] }); } }
    b
}

pub fn check_summary(data: &[u8], source_may_set_ranges: bool) -> (Problems, u64) {
    let mut out: Problems = vec![];
    let Ok(font) = Font::new(data) else { return (vec![("sfnt-unparseable".into(), String::new())], 0) };
    let n = font.num_glyphs() as usize;
    let mut evals = 0u64;
    let mut infos: Vec<GInfo> = vec![];
    for gid in 0..n {
        let raw = match font.glyph(gid as u16) { Ok(r) => r, Err(e) => { out.push(("glyph-unreadable".into(), e)); RawGlyph::Empty } };
        let resolved = font.resolved_outline(gid as u16, None, 0).unwrap_or_default();
        let (pts, contours) = (resolved.iter().map(|c| c.len()).sum(), resolved.len());
        let comp_elems = if let RawGlyph::Composite { comps, .. } = &raw { comps.len() } else { 0 };
        infos.push(GInfo { ctrl_box: bounds(&resolved), has_outline: pts > 0, raw, pts, contours, depth: 0, comp_elems });
    }
    // depths
    fn depth(font: &Font, gid: usize, seen: &mut Vec<usize>) -> usize {
        if seen.contains(&gid) || seen.len() > 32 { return 0; }
        seen.push(gid);
        let d = match font.glyph(gid as u16) { Ok(RawGlyph::Composite { comps, .. }) => 1 + comps.iter().map(|c| depth(font, c.gid as usize, seen)).max().unwrap_or(0), _ => 0 };
        seen.pop();
        d
    }
    for g in 0..n { infos[g].depth = depth(&font, g, &mut vec![]); }

    // ---- per-glyph bbox headers
    let mut union: Option<[f64; 4]> = None;
    for (gid, gi) in infos.iter().enumerate() {
        evals += 1;
        let hdr = match &gi.raw { RawGlyph::Simple { bbox, .. } | RawGlyph::Composite { bbox, .. } => Some(*bbox), RawGlyph::Empty => None };
        let Some(h) = hdr else { continue };
        let hb = [h[0] as f64, h[1] as f64, h[2] as f64, h[3] as f64];
        union = Some(match union { None => hb, Some(u) => [u[0].min(hb[0]), u[1].min(hb[1]), u[2].max(hb[2]), u[3].max(hb[3])] });
        match (&gi.raw, gi.ctrl_box) {
            (RawGlyph::Simple { .. }, Some(b)) => { if hb != b { out.push(("simple-glyph-bbox".into(), format!("gid {gid}: header {hb:?} points {b:?}"))); } }
            (RawGlyph::Composite { .. }, Some(b)) => {
                // must cover the resolved outline's curve extent and not exceed its rounded control box by more than a unit
                let covers = hb[0] <= b[0].ceil() + 1.0 && hb[1] <= b[1].ceil() + 1.0 && hb[2] >= b[2].floor() - 1.0 && hb[3] >= b[3].floor() - 1.0;
                let tight = hb[0] >= b[0].floor() - 1.0 && hb[1] >= b[1].floor() - 1.0 && hb[2] <= b[2].ceil() + 1.0 && hb[3] <= b[3].ceil() + 1.0;
                if !covers || !tight { out.push(("composite-glyph-bbox".into(), format!("gid {gid}: header {hb:?} resolved control box {b:?}"))); }
            }
            _ => {}
        }
    }
    // ---- head
    if let Ok(head) = font.f.head() {
        let hb = [head.x_min() as f64, head.y_min() as f64, head.x_max() as f64, head.y_max() as f64];
        let want = union.unwrap_or([0.0; 4]);
        if hb != want { out.push(("head-bbox".into(), format!("head {hb:?} union of glyph boxes {want:?}"))); }
        // loca format vs glyf size
        let glyf_len = font.f.table_data(read_fonts::types::Tag::new(b"glyf")).map(|d| d.len()).unwrap_or(0);
        if head.index_to_loc_format() == 0 && glyf_len > 0x1FFFE { out.push(("loca-short-format-with-large-glyf".into(), format!("glyf {glyf_len} bytes"))); }
        if let Ok(loca) = font.f.loca(None) {
            let last = loca.get_raw(n).unwrap_or(0) as usize;
            if last > glyf_len || last + 3 < glyf_len { out.push(("loca-end-vs-glyf-length".into(), format!("last offset {last} glyf {glyf_len}"))); }
            let mut prev = 0; for i in 0..=n { let o = loca.get_raw(i).unwrap_or(0); if o < prev { out.push(("loca-not-ascending".into(), format!("index {i}"))); break; } prev = o; }
        }
    }
    // ---- hmtx / hhea
    let mut advs = vec![]; let mut lsbs = vec![];
    for gid in 0..n { match font.advance(gid as u16) { Ok((a, l)) => { advs.push(a as i64); lsbs.push(l as i64); } Err(e) => { out.push(("hmtx-unreadable".into(), e)); return (out, evals); } } }
    if let Ok(hhea) = font.f.hhea() {
        let amax = advs.iter().copied().max().unwrap_or(0);
        if hhea.advance_width_max().to_u16() as i64 != amax { out.push(("hhea-advance-width-max".into(), format!("{} vs {amax}", hhea.advance_width_max().to_u16()))); }
        // glyphs "with contours": spec leaves composites of empty glyphs open -> accept either reading
        let variants: Vec<Vec<usize>> = vec![(0..n).filter(|g| infos[*g].has_outline).collect(), (0..n).filter(|g| !matches!(infos[*g].raw, RawGlyph::Empty)).collect()];
        let mut ok = [false; 3];
        let mut wants = vec![];
        for v in &variants {
            let mut min_lsb = None; let mut min_rsb = None; let mut max_ext = None;
            for &g in v {
                let (xmin, xmax) = match &infos[g].raw { RawGlyph::Simple { bbox, .. } | RawGlyph::Composite { bbox, .. } => (bbox[0] as i64, bbox[2] as i64), _ => continue };
                let lsb = lsbs[g]; let ext = lsb + (xmax - xmin); let rsb = advs[g] - ext;
                min_lsb = Some(min_lsb.map_or(lsb, |m: i64| m.min(lsb))); min_rsb = Some(min_rsb.map_or(rsb, |m: i64| m.min(rsb))); max_ext = Some(max_ext.map_or(ext, |m: i64| m.max(ext)));
            }
            let w = (min_lsb.unwrap_or(0), min_rsb.unwrap_or(0), max_ext.unwrap_or(0));
            if hhea.min_left_side_bearing().to_i16() as i64 == w.0 { ok[0] = true; }
            if hhea.min_right_side_bearing().to_i16() as i64 == w.1 { ok[1] = true; }
            if hhea.x_max_extent().to_i16() as i64 == w.2 { ok[2] = true; }
            wants.push(w);
        }
        if !ok[0] { out.push(("hhea-min-left-side-bearing".into(), format!("{} vs {:?}", hhea.min_left_side_bearing().to_i16(), wants.iter().map(|w| w.0).collect::<Vec<_>>()))); }
        if !ok[1] { out.push(("hhea-min-right-side-bearing".into(), format!("{} vs {:?}", hhea.min_right_side_bearing().to_i16(), wants.iter().map(|w| w.1).collect::<Vec<_>>()))); }
        if !ok[2] { out.push(("hhea-x-max-extent".into(), format!("{} vs {:?}", hhea.x_max_extent().to_i16(), wants.iter().map(|w| w.2).collect::<Vec<_>>()))); }
        // lsb == xMin when head says so
        if let Ok(head) = font.f.head() { if head.flags().bits() & 2 != 0 {
            for g in 0..n { if let RawGlyph::Simple { bbox, .. } | RawGlyph::Composite { bbox, .. } = &infos[g].raw { if infos[g].has_outline && lsbs[g] != bbox[0] as i64 { out.push(("lsb-differs-from-xmin".into(), format!("gid {g}: lsb {} xMin {}", lsbs[g], bbox[0]))); break; } } }
        } }
        // numberOfHMetrics: everything from index k-1 on must share one advance (any such k is admissible);
        // reading through the reader already applies that rule, so verify the raw table instead
        let k = hhea.number_of_h_metrics() as usize;
        if let Some(raw) = font.f.table_data(read_fonts::types::Tag::new(b"hmtx")) {
            let b = raw.as_bytes();
            if k >= 1 && k <= n && b.len() >= 4 * k {
                let last_adv = u16::from_be_bytes([b[4 * (k - 1)], b[4 * (k - 1) + 1]]) as i64;
                for g in k..n { if advs[g] != last_adv { out.push(("hhea-number-of-h-metrics-inconsistent".into(), format!("k={k}: glyph {g}"))); break; } }
            }
        }
    }
    // ---- vhea
    if let (Ok(vhea), true) = (font.f.vhea(), font.has(b"vmtx")) {
        let vmax = (0..n).filter_map(|g| font.v_advance(g as u16)).map(|(a, _)| a as i64).max().unwrap_or(0);
        if vhea.advance_height_max().to_u16() as i64 != vmax { out.push(("vhea-advance-height-max".into(), format!("{} vs {vmax}", vhea.advance_height_max().to_u16()))); }
    }
    // ---- maxp
    if let Ok(maxp) = font.f.maxp() {
        let simple = |f: &dyn Fn(&GInfo) -> usize| infos.iter().filter(|g| matches!(g.raw, RawGlyph::Simple { .. })).map(|g| f(g)).max().unwrap_or(0);
        let comp = |f: &dyn Fn(&GInfo) -> usize| infos.iter().filter(|g| matches!(g.raw, RawGlyph::Composite { .. })).map(|g| f(g)).max().unwrap_or(0);
        let checks: [(&str, Option<u16>, usize); 6] = [
            ("maxp-max-points", maxp.max_points(), simple(&|g| g.pts)), ("maxp-max-contours", maxp.max_contours(), simple(&|g| g.contours)),
            ("maxp-max-composite-points", maxp.max_composite_points(), comp(&|g| g.pts)), ("maxp-max-composite-contours", maxp.max_composite_contours(), comp(&|g| g.contours)),
            ("maxp-max-component-elements", maxp.max_component_elements(), comp(&|g| g.comp_elems)), ("maxp-max-component-depth", maxp.max_component_depth(), comp(&|g| g.depth)),
        ];
        for (sig, got, want) in checks { evals += 1; if let Some(got) = got { if got as usize != want { out.push((sig.into(), format!("maxp {got} recomputed {want}"))); } } }
    }
    // ---- OS/2
    if let (Ok(os2), Ok(cmap)) = (font.f.os2(), font.cmap()) {
        let nz: Vec<i64> = advs.iter().copied().filter(|a| *a > 0).collect();
        let avg = if nz.is_empty() { 0 } else { ((nz.iter().sum::<i64>() as f64) / nz.len() as f64 + 0.5).floor() as i64 };
        let avg_all = if advs.is_empty() { 0 } else { ((advs.iter().sum::<i64>() as f64) / advs.len() as f64 + 0.5).floor() as i64 };
        // usMaxContext: the longest glyph context any lookup looks at (input plus lookahead)
        if let Some(mc) = os2.us_max_context() {
            // cursive and mark attachment lookups position one glyph relative to another: counted as 2 or (fontTools) not at all
            match (max_context(&font, true), max_context(&font, false)) { (Ok(a), Ok(b)) => { evals += 1; if mc != a && mc != b { out.push(("os2-max-context".into(), format!("OS/2 says {mc}, the lookups of GSUB and GPOS need {b} (or {a} counting attachment lookups)"))); } } (Err(e), _) | (_, Err(e)) => out.push(("layout-unreadable".into(), e)) }
        }
        let got = os2.x_avg_char_width() as i64;
        // version >= 3: mean of non-zero advances (rounded; accept truncation too)
        let trunc = if nz.is_empty() { 0 } else { nz.iter().sum::<i64>() / nz.len() as i64 };
        if got != avg && got != trunc { out.push(("os2-x-avg-char-width".into(), format!("{got} vs mean of non-zero advances {avg} (all glyphs: {avg_all})"))); }
        if !cmap.is_empty() {
            let (lo, hi) = (*cmap.keys().next().unwrap(), *cmap.keys().last().unwrap());
            if os2.us_first_char_index() as u32 != lo.min(0xFFFF) { out.push(("os2-first-char-index".into(), format!("{:#x} vs {:#x}", os2.us_first_char_index(), lo.min(0xFFFF)))); }
            if os2.us_last_char_index() as u32 != hi.min(0xFFFF) { out.push(("os2-last-char-index".into(), format!("{:#x} vs {:#x}", os2.us_last_char_index(), hi.min(0xFFFF)))); }
        }
        let bits = [os2.ul_unicode_range_1(), os2.ul_unicode_range_2(), os2.ul_unicode_range_3(), os2.ul_unicode_range_4()];
        let bit = |b: usize| bits[b / 32] >> (b % 32) & 1 == 1;
        let supp = cmap.keys().any(|c| *c > 0xFFFF);
        if bit(57) != supp { out.push(("os2-unicode-range-bit-57".into(), format!("bit {} but supplementary-plane codepoints present: {supp}", bit(57)))); }
        for (b, lo, hi) in UNICODE_RANGES_MULTI { if cmap.range(*lo..=*hi).next().is_some() && !bit(*b) && !source_may_set_ranges { out.push(("os2-unicode-range-bit".into(), format!("bit {b} not set although cmap has a codepoint in U+{lo:04X}-U+{hi:04X}"))); } }
        for (b, lo, hi) in UNICODE_RANGES {
            if source_may_set_ranges { break; }
            evals += 1;
            let present = cmap.range(*lo..=*hi).next().is_some();
            if bit(*b) != present { out.push(("os2-unicode-range-bit".into(), format!("bit {b} (U+{lo:04X}-U+{hi:04X}) is {} but cmap {} a codepoint there", bit(*b), if present { "has" } else { "has no" }))); }
        }
        if !font.has(b"GSUB") && !font.has(b"GPOS") { if let Some(mc) = os2.us_max_context() { if mc != 0 { out.push(("os2-max-context-without-layout".into(), format!("{mc}"))); } } }
    }
    (out, evals)
}

/// OS/2 ulUnicodeRange bits that cover exactly one block (so "set iff a codepoint is present" is checkable)
pub const UNICODE_RANGES: &[(usize, u32, u32)] = &[
    (0, 0x0000, 0x007F), (1, 0x0080, 0x00FF), (2, 0x0100, 0x017F), (3, 0x0180, 0x024F), (7, 0x0370, 0x03FF), (11, 0x0590, 0x05FF),
    (15, 0x0900, 0x097F), (24, 0x0E00, 0x0E7F), (33, 0x20A0, 0x20CF), (35, 0x2100, 0x214F), (45, 0x25A0, 0x25FF), (49, 0x3040, 0x309F),
    (60, 0xE000, 0xF8FF), (86, 0x10330, 0x1034F),
];
/// bits shared by several blocks: only "codepoint present => bit set" is checked, on one of the blocks
pub const UNICODE_RANGES_MULTI: &[(usize, u32, u32)] = &[(9, 0x0400, 0x04FF), (6, 0x0300, 0x036F), (90, 0xF0000, 0xFFFFD), (31, 0x2000, 0x206F)];

/// maximum context length over all GSUB and GPOS lookups (OpenType OS/2 usMaxContext)
pub fn max_context(font: &Font, count_attachment: bool) -> Result<u16, String> {
    use read_fonts::tables::gpos::PositionSubtables as P;
    use read_fonts::tables::gsub::SubstitutionSubtables as S;
    use read_fonts::tables::layout::{ChainedSequenceContext as C, SequenceContext as Q};
    let e = |x: read_fonts::ReadError| x.to_string();
    fn ctx(st: &Q) -> Result<usize, String> {
        let e = |x: read_fonts::ReadError| x.to_string();
        Ok(match st {
            Q::Format1(s) => { let mut m = 0; for set in s.seq_rule_sets().iter().flatten() { for r in set.map_err(e)?.seq_rules().iter() { m = m.max(r.map_err(e)?.glyph_count() as usize); } } m }
            Q::Format2(s) => { let mut m = 0; for set in s.class_seq_rule_sets().iter().flatten() { for r in set.map_err(e)?.class_seq_rules().iter() { m = m.max(r.map_err(e)?.glyph_count() as usize); } } m }
            Q::Format3(s) => s.glyph_count() as usize,
        })
    }
    fn chain(st: &C) -> Result<usize, String> {
        let e = |x: read_fonts::ReadError| x.to_string();
        Ok(match st {
            C::Format1(s) => { let mut m = 0; for set in s.chained_seq_rule_sets().iter().flatten() { for r in set.map_err(e)?.chained_seq_rules().iter() { let r = r.map_err(e)?; m = m.max(r.input_glyph_count() as usize + r.lookahead_glyph_count() as usize); } } m }
            C::Format2(s) => { let mut m = 0; for set in s.chained_class_seq_rule_sets().iter().flatten() { for r in set.map_err(e)?.chained_class_seq_rules().iter() { let r = r.map_err(e)?; m = m.max(r.input_glyph_count() as usize + r.lookahead_glyph_count() as usize); } } m }
            C::Format3(s) => s.input_glyph_count() as usize + s.lookahead_glyph_count() as usize,
        })
    }
    let mut m = 0usize;
    if let Ok(gsub) = font.f.gsub() {
        for l in gsub.lookup_list().map_err(e)?.lookups().iter() {
            match l.map_err(e)?.subtables().map_err(e)? {
                S::Single(_) | S::Multiple(_) | S::Alternate(_) => m = m.max(1),
                S::Ligature(sts) => { for st in sts.iter() { for set in st.map_err(e)?.ligature_sets().iter() { for lig in set.map_err(e)?.ligatures().iter() { m = m.max(lig.map_err(e)?.component_glyph_ids().len() + 1); } } } }
                S::Contextual(sts) => { for st in sts.iter() { m = m.max(ctx(&st.map_err(e)?)?); } }
                S::ChainContextual(sts) => { for st in sts.iter() { m = m.max(chain(&st.map_err(e)?)?); } }
                S::Reverse(sts) => { for st in sts.iter() { m = m.max(1 + st.map_err(e)?.lookahead_glyph_count() as usize); } }
                S::EmptyExtension => {}
            }
        }
    }
    if let Ok(gpos) = font.f.gpos() {
        for l in gpos.lookup_list().map_err(e)?.lookups().iter() {
            match l.map_err(e)?.subtables().map_err(e)? {
                P::Single(sts) => { if sts.iter().next().is_some() { m = m.max(1); } }
                P::Pair(sts) => { if sts.iter().next().is_some() { m = m.max(2); } }
                P::Cursive(sts) => { if count_attachment && sts.iter().next().is_some() { m = m.max(2); } }
                P::MarkToBase(sts) => { if count_attachment && sts.iter().next().is_some() { m = m.max(2); } }
                P::MarkToLig(sts) => { if count_attachment && sts.iter().next().is_some() { m = m.max(2); } }
                P::MarkToMark(sts) => { if count_attachment && sts.iter().next().is_some() { m = m.max(2); } }
                P::Contextual(sts) => { for st in sts.iter() { m = m.max(ctx(&st.map_err(e)?)?); } }
                P::ChainContextual(sts) => { for st in sts.iter() { m = m.max(chain(&st.map_err(e)?)?); } }
                P::EmptyExtension => {}
            }
        }
    }
    Ok(m.min(u16::MAX as usize) as u16)
}
