pub mod build;
pub mod model;
pub mod ufo;
pub mod corpus;
