//! Independent reader / evaluator of compiled fonts. Table parsing is read-fonts (the reader
//! side, independent of fontc's writers); tuple scalars, IUP, ItemVariationStore evaluation and
//! composite resolution are implemented here.
pub mod outline;
pub mod validate;
pub mod sfnt;
pub mod summary;
pub mod layout;

use read_fonts::tables::glyf::Glyph as RfGlyph;
use read_fonts::tables::variations::{DeltaSetIndexMap, ItemVariationStore};
use read_fonts::types::{F2Dot14, GlyphId, GlyphId16, Tag};
use read_fonts::{FontRef, TableProvider};
use std::collections::BTreeMap;

pub struct Font<'a> {
    pub data: &'a [u8],
    pub f: FontRef<'a>,
}

#[derive(Clone, Debug, PartialEq)]
pub enum RawGlyph {
    Empty,
    Simple { contours: Vec<Vec<(f64, f64, bool)>>, bbox: [i16; 4] },
    Composite { comps: Vec<RawComp>, bbox: [i16; 4] },
}

#[derive(Clone, Debug, PartialEq)]
pub struct RawComp { pub gid: u16, pub xf: [f64; 4], pub dx: f64, pub dy: f64, pub flags: u16 }

pub fn f2(v: f64) -> f64 { (v * 16384.0).round().clamp(-16384.0, 16384.0) / 16384.0 }

impl<'a> Font<'a> {
    pub fn new(data: &'a [u8]) -> Result<Self, String> {
        let f = FontRef::new(data).map_err(|e| format!("sfnt: {e}"))?;
        Ok(Font { data, f })
    }
    pub fn has(&self, tag: &[u8; 4]) -> bool { self.f.table_data(Tag::new(tag)).is_some() }
    pub fn num_glyphs(&self) -> u16 { self.f.maxp().map(|m| m.num_glyphs()).unwrap_or(0) }
    pub fn glyph_names(&self) -> Result<Vec<String>, String> {
        let post = self.f.post().map_err(|e| format!("post: {e}"))?;
        let n = self.num_glyphs();
        (0..n).map(|g| post.glyph_name(GlyphId16::new(g)).map(|s| s.to_string()).ok_or_else(|| format!("post has no name for gid {g}"))).collect()
    }
    /// union of all unicode cmap subtables; error if two subtables disagree on a codepoint they both map
    pub fn cmap(&self) -> Result<BTreeMap<u32, u32>, String> {
        let cmap = self.f.cmap().map_err(|e| format!("cmap: {e}"))?;
        let mut out: BTreeMap<u32, u32> = BTreeMap::new();
        for (i, rec) in cmap.encoding_records().iter().enumerate() {
            let st = cmap.subtable(i as u16).map_err(|e| format!("cmap subtable {i}: {e}"))?;
            let _ = rec;
            for (cp, gid) in st.iter() {
                if cp == 0xFFFF && gid.to_u32() == 0 { continue; } // the format 4 terminator segment, not a mapping
                if let Some(prev) = out.insert(cp, gid.to_u32()) { if prev != gid.to_u32() { return Err(format!("cmap subtables disagree on U+{cp:04X}: {prev} vs {}", gid.to_u32())); } }
            }
        }
        Ok(out)
    }
    pub fn axes(&self) -> Vec<(String, f64, f64, f64)> {
        let Ok(fvar) = self.f.fvar() else { return vec![] };
        fvar.axes().map(|a| a.iter().map(|a| (a.axis_tag().to_string(), a.min_value().to_f64(), a.default_value().to_f64(), a.max_value().to_f64())).collect()).unwrap_or_default()
    }
    pub fn glyph(&self, gid: u16) -> Result<RawGlyph, String> {
        let loca = self.f.loca(None).map_err(|e| format!("loca: {e}"))?;
        let glyf = self.f.glyf().map_err(|e| format!("glyf: {e}"))?;
        match loca.get_glyf(GlyphId::new(gid as u32), &glyf).map_err(|e| format!("glyf {gid}: {e}"))? {
            None => Ok(RawGlyph::Empty),
            Some(RfGlyph::Simple(s)) => {
                let pts: Vec<_> = s.points().collect();
                let mut contours = vec![];
                let mut start = 0usize;
                for end in s.end_pts_of_contours() {
                    let end = end.get() as usize;
                    if end < start || end >= pts.len() { return Err(format!("glyph {gid}: bad contour end {end}")); }
                    contours.push(pts[start..=end].iter().map(|p| (p.x as f64, p.y as f64, p.on_curve)).collect());
                    start = end + 1;
                }
                Ok(RawGlyph::Simple { contours, bbox: [s.x_min(), s.y_min(), s.x_max(), s.y_max()] })
            }
            Some(RfGlyph::Composite(c)) => {
                let mut comps = vec![];
                for comp in c.components() {
                    let (dx, dy) = match comp.anchor { read_fonts::tables::glyf::Anchor::Offset { x, y } => (x as f64, y as f64), _ => return Err(format!("glyph {gid}: point-anchored component")) };
                    let t = comp.transform;
                    comps.push(RawComp { gid: comp.glyph.to_u16(), xf: [t.xx.to_f32() as f64, t.yx.to_f32() as f64, t.xy.to_f32() as f64, t.yy.to_f32() as f64], dx, dy, flags: comp.flags.bits() });
                }
                Ok(RawGlyph::Composite { comps, bbox: [c.x_min(), c.y_min(), c.x_max(), c.y_max()] })
            }
        }
    }

    pub fn advance(&self, gid: u16) -> Result<(u16, i16), String> {
        let hmtx = self.f.hmtx().map_err(|e| format!("hmtx: {e}"))?;
        let adv = hmtx.advance(GlyphId::new(gid as u32)).ok_or("hmtx: no advance")?;
        let lsb = hmtx.side_bearing(GlyphId::new(gid as u32)).ok_or("hmtx: no lsb")?;
        Ok((adv, lsb))
    }
    pub fn v_advance(&self, gid: u16) -> Option<(u16, i16)> {
        let vmtx = self.f.vmtx().ok()?;
        Some((vmtx.advance(GlyphId::new(gid as u32))?, vmtx.side_bearing(GlyphId::new(gid as u32))?))
    }

    /// gvar deltas for every point of the glyph (n = outline points or components, + 4 phantom),
    /// at normalized `coords`. Own tuple-scalar and IUP implementation.
    pub fn gvar_deltas(&self, gid: u16, coords: &[f64], glyph: &RawGlyph) -> Result<(Vec<(f64, f64)>, f64), String> {
        let n_pts = match glyph { RawGlyph::Empty => 0, RawGlyph::Simple { contours, .. } => contours.iter().map(|c| c.len()).sum(), RawGlyph::Composite { comps, .. } => comps.len() } + 4;
        let mut acc = vec![(0.0f64, 0.0f64); n_pts];
        let mut scalar_sum = 0.0;
        let Ok(gvar) = self.f.gvar() else { return Ok((acc, 0.0)) };
        let Some(data) = gvar.glyph_variation_data(GlyphId::new(gid as u32)).map_err(|e| format!("gvar {gid}: {e}"))? else { return Ok((acc, 0.0)) };
        let axis_count = gvar.axis_count() as usize;
        if axis_count != coords.len() { return Err(format!("gvar axis count {axis_count} != {}", coords.len())); }
        // contour end indices for IUP
        let (orig, ends): (Vec<(f64, f64)>, Vec<usize>) = match glyph {
            RawGlyph::Simple { contours, .. } => { let mut o = vec![]; let mut e = vec![]; for c in contours { for p in c { o.push((p.0, p.1)); } e.push(o.len() - 1); } (o, e) }
            _ => (vec![], vec![]),
        };
        for tuple in data.tuples() {
            let peak = tuple.peak();
            let inter = tuple.intermediate_start().zip(tuple.intermediate_end());
            let mut scalar = 1.0f64;
            for a in 0..axis_count {
                let pk = peak.get(a).map(|v| v.to_f32() as f64).unwrap_or(0.0);
                if pk == 0.0 { continue; }
                let v = coords[a];
                if v == pk { continue; }
                let (lo, hi) = match &inter { Some((s, e)) => (s.get(a).map(|v| v.to_f32() as f64).unwrap_or(0.0), e.get(a).map(|v| v.to_f32() as f64).unwrap_or(0.0)), None => (pk.min(0.0), pk.max(0.0)) };
                if v <= lo || v >= hi { scalar = 0.0; break; }
                scalar *= if v < pk { (v - lo) / (pk - lo) } else { (hi - v) / (hi - pk) };
            }
            if scalar == 0.0 { continue; }
            scalar_sum += scalar;
            let mut d: Vec<Option<(f64, f64)>> = vec![None; n_pts];
            if tuple.has_deltas_for_all_points() {
                for (i, delta) in tuple.deltas().enumerate() { if i < n_pts { d[i] = Some((delta.x_delta as f64, delta.y_delta as f64)); } }
            } else {
                for delta in tuple.deltas() { let i = delta.position as usize; if i >= n_pts { return Err(format!("gvar {gid}: point number {i} out of range {n_pts}")); } d[i] = Some((delta.x_delta as f64, delta.y_delta as f64)); }
                if matches!(glyph, RawGlyph::Simple { .. }) { iup(&mut d, &orig, &ends); }
            }
            for (i, v) in d.iter().enumerate() { if let Some((x, y)) = v { acc[i].0 += x * scalar; acc[i].1 += y * scalar; } }
        }
        Ok((acc, scalar_sum))
    }

    /// evaluate an ItemVariationStore delta at coords
    pub fn ivs_delta(ivs: &ItemVariationStore, outer: u16, inner: u16, coords: &[f64]) -> Result<f64, String> { Self::ivs_delta_s(ivs, outer, inner, coords).map(|x| x.0) }
    /// (delta, sum of the scalars of the active regions of this delta set)
    pub fn ivs_delta_s(ivs: &ItemVariationStore, outer: u16, inner: u16, coords: &[f64]) -> Result<(f64, f64), String> { Self::ivs_delta_sn(ivs, outer, inner, coords).map(|x| (x.0, x.1)) }
    /// (delta, sum of active scalars, number of regions the delta set refers to)
    pub fn ivs_delta_sn(ivs: &ItemVariationStore, outer: u16, inner: u16, coords: &[f64]) -> Result<(f64, f64, usize), String> {
        let regions = ivs.variation_region_list().map_err(|e| format!("ivs regions: {e}"))?;
        let data = ivs.item_variation_data().get(outer as usize).ok_or_else(|| format!("ivs: no data {outer}"))?.map_err(|e| format!("ivs data {outer}: {e}"))?;
        let idx = data.region_indexes();
        let mut total = 0.0;
        let mut ssum = 0.0;
        let all = regions.variation_regions();
        for (k, delta) in data.delta_set(inner).enumerate() {
            let ri = idx.get(k).ok_or("ivs: region index missing")?.get() as usize;
            let region = all.get(ri).map_err(|e| format!("ivs region {ri}: {e}"))?;
            let mut scalar = 1.0;
            for (a, ax) in region.region_axes().iter().enumerate() {
                let (s, p, e) = (ax.start_coord().to_f32() as f64, ax.peak_coord().to_f32() as f64, ax.end_coord().to_f32() as f64);
                let v = *coords.get(a).ok_or("ivs: more region axes than coords")?;
                if s > p || p > e || (s < 0.0 && e > 0.0 && p != 0.0) || p == 0.0 { continue; }
                if v == p { continue; }
                if v <= s || v >= e { scalar = 0.0; break; }
                scalar *= if v < p { (v - s) / (p - s) } else { (e - v) / (e - p) };
            }
            total += scalar * delta as f64;
            ssum += scalar; // a delta that rounded to 0 still carries a rounding error
            if std::env::var_os("VF_DEBUG_IVS").is_some() { eprintln!("ivs {outer}/{inner} region {ri} {:?} scalar {scalar} delta {delta}", region.region_axes().iter().map(|a| (a.start_coord().to_f32(), a.peak_coord().to_f32(), a.end_coord().to_f32())).collect::<Vec<_>>()); }
        }
        Ok((total, ssum, idx.len()))
    }

    pub fn map_index(map: Option<&DeltaSetIndexMap>, gid: u16) -> Result<(u16, u16), String> {
        match map {
            None => Ok((0, gid)),
            Some(m) => m.get(gid as u32).map(|d| (d.outer, d.inner)).map_err(|e| format!("delta set index map: {e}")),
        }
    }

    pub fn hvar_advance_delta(&self, gid: u16, coords: &[f64]) -> Result<Option<f64>, String> {
        let Ok(hvar) = self.f.hvar() else { return Ok(None) };
        let ivs = hvar.item_variation_store().map_err(|e| format!("HVAR store: {e}"))?;
        let map = hvar.advance_width_mapping().transpose().map_err(|e| format!("HVAR map: {e}"))?;
        let (o, i) = Self::map_index(map.as_ref(), gid)?;
        Self::ivs_delta(&ivs, o, i, coords).map(Some)
    }
    pub fn vvar_advance_delta(&self, gid: u16, coords: &[f64]) -> Result<Option<f64>, String> {
        let Ok(vvar) = self.f.vvar() else { return Ok(None) };
        let ivs = vvar.item_variation_store().map_err(|e| format!("VVAR store: {e}"))?;
        let map = vvar.advance_height_mapping().transpose().map_err(|e| format!("VVAR map: {e}"))?;
        let (o, i) = Self::map_index(map.as_ref(), gid)?;
        Self::ivs_delta(&ivs, o, i, coords).map(Some)
    }
    pub fn mvar_delta(&self, tag: &[u8; 4], coords: &[f64]) -> Result<Option<f64>, String> {
        let Ok(mvar) = self.f.mvar() else { return Ok(None) };
        let Some(ivs) = mvar.item_variation_store() else { return Ok(None) };
        let ivs = ivs.map_err(|e| format!("MVAR store: {e}"))?;
        for rec in mvar.value_records() {
            if rec.value_tag() == Tag::new(tag) { return Self::ivs_delta(&ivs, rec.delta_set_outer_index(), rec.delta_set_inner_index(), coords).map(Some); }
        }
        Ok(None)
    }

    /// outline of a glyph at `coords`, fully resolved through components: list of contours of (x, y, on)
    pub fn resolved_outline(&self, gid: u16, coords: Option<&[f64]>, depth: usize) -> Result<Vec<Vec<(f64, f64, bool)>>, String> {
        if depth > 16 { return Err(format!("component nesting deeper than 16 at gid {gid}")); }
        let g = self.glyph(gid)?;
        let deltas = match coords { Some(c) if !c.is_empty() => self.gvar_deltas(gid, c, &g)?.0, _ => vec![(0.0, 0.0); 4096] };
        match g {
            RawGlyph::Empty => Ok(vec![]),
            RawGlyph::Simple { contours, .. } => {
                let mut i = 0;
                Ok(contours.iter().map(|c| c.iter().map(|p| { let d = deltas.get(i).copied().unwrap_or((0.0, 0.0)); i += 1; (p.0 + d.0, p.1 + d.1, p.2) }).collect()).collect())
            }
            RawGlyph::Composite { comps, .. } => {
                let mut out = vec![];
                for (k, c) in comps.iter().enumerate() {
                    let d = deltas.get(k).copied().unwrap_or((0.0, 0.0));
                    let sub = self.resolved_outline(c.gid, coords, depth + 1)?;
                    for contour in sub {
                        out.push(contour.iter().map(|p| (c.xf[0] * p.0 + c.xf[2] * p.1 + c.dx + d.0, c.xf[1] * p.0 + c.xf[3] * p.1 + c.dy + d.1, p.2)).collect());
                    }
                }
                Ok(out)
            }
        }
    }
}

/// Inferred deltas for untouched points (OpenType spec, "Inferred deltas for un-referenced point numbers")
fn iup(d: &mut [Option<(f64, f64)>], orig: &[(f64, f64)], ends: &[usize]) {
    let mut start = 0;
    for &end in ends {
        let idxs: Vec<usize> = (start..=end).collect();
        let touched: Vec<usize> = idxs.iter().copied().filter(|i| d[*i].is_some()).collect();
        if touched.is_empty() { start = end + 1; continue; }
        if touched.len() == 1 { let v = d[touched[0]]; for i in &idxs { d[*i] = v; } start = end + 1; continue; }
        let n = touched.len();
        for t in 0..n {
            let a = touched[t]; let b = touched[(t + 1) % n];
            // untouched points strictly between a and b (cyclically)
            let mut i = if a == end { start } else { a + 1 };
            while i != b {
                let (da, db) = (d[a].unwrap(), d[b].unwrap());
                let fx = interp(orig[i].0, orig[a].0, orig[b].0, da.0, db.0);
                let fy = interp(orig[i].1, orig[a].1, orig[b].1, da.1, db.1);
                d[i] = Some((fx, fy));
                i = if i == end { start } else { i + 1 };
            }
        }
        start = end + 1;
    }
    for v in d.iter_mut() { if v.is_none() { *v = Some((0.0, 0.0)); } }
}

fn interp(p: f64, pa: f64, pb: f64, da: f64, db: f64) -> f64 {
    if pa == pb { return if da == db { da } else { 0.0 }; }
    let (lo, hi, dlo, dhi) = if pa < pb { (pa, pb, da, db) } else { (pb, pa, db, da) };
    if p <= lo { dlo } else if p >= hi { dhi } else { dlo + (p - lo) / (hi - lo) * (dhi - dlo) }
}

pub fn f2dot14(v: f64) -> F2Dot14 { F2Dot14::from_f32(v as f32) }
