//! C08 — Axis ranges and user/design/normalized mapping survive into fvar and avar.
use crate::genome::{fnv_str, Gen};
use crate::ot::Font;
use crate::props::c03::{attach_source, build, classify, describe};
use crate::run::{CaseReport, Ctx, Part};
use crate::synth::build::BuildOpts;
use crate::synth::model::*;
use fontdrasil::coords::{CoordConverter, DesignCoord, NormalizedCoord, UserCoord};
use read_fonts::TableProvider;
use serde_json::json;

pub fn profile() -> Profile {
    Profile { min_axes: 1, max_axes: 3, max_glyphs: 2, min_glyphs: 1, outlines: false, cubic: false, components: 0, transforms: false, mixed: false, sparse: 0,
        order_variety: false, non_export: false, metrics_class_a: false, vertical: false, half_coords: false, maps: true, awkward_axes: true, multi_codepoints: false, ps_names: false, anchors: false, kerning: false, instances: true, flat_maps: true, point_axis: true, weird_names: false, ..Profile::base() }
}

fn seg_apply(map: &[(f64, f64)], v: f64) -> (f64, f64) {
    // returns (mapped value, slope of the segment used)
    if map.is_empty() { return (v, 1.0); }
    if v <= map[0].0 { return (map[0].1 + (v - map[0].0), 1.0); }
    for w in map.windows(2) {
        let ((f0, t0), (f1, t1)) = (w[0], w[1]);
        if v <= f1 { if f1 == f0 { return (t1, 0.0); } let s = (t1 - t0) / (f1 - f0);
            // within one F2Dot14 step of a node the quantised node may put the sample on the other side: the steeper neighbour bounds the error
            let near = |a: f64| (v - a).abs() <= 2.0 / 16384.0;
            let neighbour = |k: usize| -> f64 { map.get(k).zip(map.get(k + 1)).map(|(a, b)| if b.0 == a.0 { 0.0 } else { ((b.1 - a.1) / (b.0 - a.0)).abs() }).unwrap_or(1.0) };
            let k = map.iter().position(|m| *m == (f0, t0)).unwrap_or(0);
            let mut smax = s.abs();
            if near(f0) && k > 0 { smax = smax.max(neighbour(k - 1)); }
            if near(f1) { smax = smax.max(neighbour(k + 1)); }
            return (t0 + (v - f0) * s, smax); }
    }
    let l = map[map.len() - 1];
    (l.1 + (v - l.0), 1.0)
}

pub fn sample_users(a: &Axis, g: &mut Gen) -> Vec<f64> {
    let (mn, df, mx) = (a.u_min(), a.u_default(), a.u_max());
    let mut us = vec![mn, df, mx];
    if let Some(m) = &a.map { let mut n: Vec<f64> = m.iter().map(|p| p.0).collect(); n.sort_by(|a, b| a.partial_cmp(b).unwrap()); for w in n.windows(2) { us.push(w[0]); us.push((w[0] + w[1]) / 2.0); us.push(w[0] + (w[1] - w[0]) / 64.0); } us.push(n[n.len() - 1]); }
    for _ in 0..40 { us.push(mn + (mx - mn) * g.word() as f64 / 65535.0); }
    us
}

pub fn check_fonts(ctx: &Ctx, genome: &[u16]) -> CaseReport {
    let mut rep = CaseReport::default();
    let f = SynthFont::decode(genome, &profile());
    rep.key = f.hash();
    classify(&mut rep, &f);
    rep.sample = Some(json!({"font": describe(&f), "instances": f.instances.iter().map(|i| i.norm.clone()).collect::<Vec<_>>()}));
    if ctx.dry { for (k, v) in crate::synth::ufo::render(&f) { rep.artifacts.push((k, v.into_bytes())); } return rep; }
    let Some(b) = build(ctx, &mut rep, f, &BuildOpts::default()) else { return rep };
    let f = &b.font;
    let font = match Font::new(&b.bytes) { Ok(x) => x, Err(e) => { rep.fail("output-unparseable", e); attach_source(&mut rep, &b); return rep; } };
    let axes = font.axes();
    let model_axes: Vec<&Axis> = f.var_axes();
    if axes.len() != model_axes.len() { rep.fail("fvar-axis-count", format!("{} vs {}", axes.len(), model_axes.len())); attach_source(&mut rep, &b); return rep; }
    if f.axes.iter().any(|a| a.is_point()) { rep.class("has-point-axis"); }
    // avar maps
    let mut maps: Vec<Vec<(f64, f64)>> = vec![vec![]; axes.len()];
    if let Ok(avar) = font.f.avar() {
        for (i, sm) in avar.axis_segment_maps().iter().enumerate() {
            let Ok(sm) = sm else { rep.fail("avar-unreadable", format!("axis {i}")); continue; };
            if i >= maps.len() { rep.fail("avar-more-maps-than-axes", format!("{i}")); break; }
            maps[i] = sm.axis_value_maps().iter().map(|m| (m.from_coordinate().to_f32() as f64, m.to_coordinate().to_f32() as f64)).collect();
            let m = &maps[i];
            if !m.is_empty() {
                for need in [(-1.0, -1.0), (0.0, 0.0), (1.0, 1.0)] { if !m.contains(&need) { rep.fail("avar-map-missing-required-node", format!("axis {i}: {need:?} not in {m:?}")); } }
                for w in m.windows(2) { if w[1].0 < w[0].0 || w[1].1 < w[0].1 { rep.fail("avar-map-not-non-decreasing", format!("axis {i}: {m:?}")); break; } }
            }
        }
    }
    let mut g = Gen::new(genome);
    let mut nontrivial = false;
    for (i, a) in model_axes.iter().enumerate() {
        let (tag, mn, df, mx) = &axes[i];
        if *tag != a.tag { rep.fail("fvar-axis-order-or-tag", format!("{tag} vs {}", a.tag)); continue; }
        if (*mn, *df, *mx) != (a.u_min(), a.u_default(), a.u_max()) { rep.fail("fvar-axis-bounds", format!("{tag}: fvar ({mn}, {df}, {mx}) vs source ({}, {}, {})", a.u_min(), a.u_default(), a.u_max())); continue; }
        for u in sample_users(a, &mut g) {
            let n0 = if u < *df { if *df == *mn { 0.0 } else { -((*df - u) / (*df - *mn)) } } else if u > *df { if *mx == *df { 0.0 } else { (u - *df) / (*mx - *df) } } else { 0.0 };
            let n0 = n0.clamp(-1.0, 1.0);
            let (got, slope) = seg_apply(&maps[i], n0);
            let want = a.design_to_norm(a.user_to_design(u));
            let tol = (1.0 + slope) / 16384.0 + 1e-9 + 1.0 / 16384.0;
            rep.evals += 1;
            if (got - want).abs() > tol { rep.fail("normalization-differs-from-source-mapping", format!("axis {tag} user {u}: fvar+avar gives {got:.6}, source mapping gives {want:.6} (tolerance {tol:.6}); avar {:?}; map {:?}", maps[i], a.map)); break; }
            if (want - n0).abs() > 1.0 / 64.0 { nontrivial = true; }
        }
    }
    // named instances inside their axis ranges (and at the source's location where the map is invertible)
    if let Ok(fvar) = font.f.fvar() { if let Ok(insts) = fvar.instances() {
        let list: Vec<_> = insts.iter().flatten().collect();
        if list.len() != f.instances.len() { rep.fail("fvar-instance-count", format!("{} vs {}", list.len(), f.instances.len())); }
        for (k, inst) in list.iter().enumerate() {
            for (i, c) in inst.coordinates.iter().enumerate() {
                let v = c.get().to_f64();
                let (_, mn, _, mx) = &axes[i];
                if v < *mn - 1e-9 || v > *mx + 1e-9 { rep.fail("instance-coordinate-outside-axis-range", format!("instance {k} axis {i}: {v} not in [{mn}, {mx}]")); }
                if let Some(mi) = f.instances.get(k) {
                    let a = model_axes[i];
                    let full_i = f.axes.iter().position(|x| x.tag == a.tag).unwrap();
                    let d = a.norm_to_design(mi.norm[full_i]);
                    // the user value must map back to the design value of the source
                    if (a.user_to_design(v) - d).abs() > (a.d_above + a.d_below) / 16384.0 + 1e-6 { rep.fail("instance-coordinate-differs-from-source", format!("instance {k} axis {}: fvar user {v} maps to design {} but source says {d}", a.tag, a.user_to_design(v))); }
                }
            }
        }
    } }
    rep.nontrivial = nontrivial;
    if !f.instances.is_empty() { rep.class("has-instances"); }
    if f.axes.iter().any(|a| a.map.as_ref().map(|m| m.windows(2).any(|w| w[0].1 == w[1].1)).unwrap_or(false)) { rep.class("flat-map-segment"); }
    if f.axes.iter().any(|a| a.d_below == 0.0) { rep.class("default-at-min"); }
    if f.axes.iter().any(|a| a.d_above == 0.0) { rep.class("default-at-max"); }
    attach_source(&mut rep, &b);
    rep
}

/// pure: fontdrasil's CoordConverter against the reference piecewise-linear model
pub fn check_converter(_ctx: &Ctx, genome: &[u16]) -> CaseReport {
    let mut rep = CaseReport::default();
    let f = SynthFont::decode(genome, &Profile { max_glyphs: 1, min_glyphs: 1, ..profile() });
    let mut g = Gen::new(genome);
    for a in &f.axes {
        let nodes: Vec<(f64, f64)> = match &a.map { Some(m) => m.clone(), None => vec![(a.u_min(), a.d_min()), (a.u_default(), a.d_default), (a.u_max(), a.d_max())] };
        let mut nodes = nodes; nodes.dedup();
        let default_idx = nodes.iter().position(|n| n.1 == a.d_default && n.0 == a.u_default()).unwrap_or(0);
        let conv = match CoordConverter::new(nodes.iter().map(|(u, d)| (UserCoord::new(*u), DesignCoord::new(*d))).collect(), default_idx) {
            Ok(c) => c, Err(e) => { rep.fail("converter-rejects-valid-map", format!("{e}: {nodes:?}")); continue; } };
        for u in sample_users(a, &mut g) {
            let d = UserCoord::new(u).to_design(&conv).to_f64();
            let n = UserCoord::new(u).to_normalized(&conv).to_f64();
            let (dw, nw) = (a.user_to_design(u), a.design_to_norm(a.user_to_design(u)));
            rep.evals += 1;
            let scale = (a.d_above + a.d_below).max(1.0);
            if (d - dw).abs() > 1e-9 * scale { rep.fail("user-to-design-differs", format!("{}: u={u} got {d} want {dw}; nodes {nodes:?}", a.tag)); break; }
            if (n - nw).abs() > 1e-9 { rep.fail("user-to-normalized-differs", format!("{}: u={u} got {n} want {nw}; nodes {nodes:?}", a.tag)); break; }
        }
        // round trips at nodes (where the map is injective)
        for (u, d) in &nodes {
            if nodes.iter().filter(|n| n.1 == *d).count() > 1 { continue; }
            let back = DesignCoord::new(*d).to_user(&conv).to_f64();
            if (back - u).abs() > 1e-9 * u.abs().max(1.0) { rep.fail("design-to-user-node-roundtrip", format!("{}: design {d} -> user {back}, expected {u}", a.tag)); }
            let nn = DesignCoord::new(*d).to_normalized(&conv).to_f64();
            let back_d = NormalizedCoord::new(nn).to_design(&conv).to_f64();
            if (back_d - d).abs() > 1e-9 * d.abs().max(1.0) { rep.fail("normalized-to-design-roundtrip", format!("{}: {d} -> {nn} -> {back_d}", a.tag)); }
        }
    }
    rep.nontrivial = f.axes.iter().any(|a| a.map.as_ref().map(|m| m.len() > 3).unwrap_or(false));
    rep.key = fnv_str(&format!("{:?}", f.axes));
    rep.sample = Some(json!({"axes": f.axes.iter().map(|a| json!({"tag": a.tag, "map": a.map, "design": [a.d_min(), a.d_default, a.d_max()]})).collect::<Vec<_>>()}));
    rep
}

pub fn parts() -> Vec<Part> {
    vec![
        Part { name: "converter", genome_len: 200, cases_quick: 20_000, cases_thorough: 1_000_000, threads: 16, max_shrink_iters: 2000, check: Box::new(check_converter), remote: None },
        Part { name: "fonts", genome_len: 700, cases_quick: 1200, cases_thorough: 30_000, threads: 12, max_shrink_iters: 300, check: Box::new(check_fonts), remote: None },
    ]
}
pub const RULE: &str = "1-3 axes; default at min / inside / at max; design extents in units of 64 (or 100: awkward class); optional user->design map with min/default/max nodes + 0-3 interior nodes (a fifth of the maps are the identity at min / default / max and bend only in between) at dyadic positions (+ flat segment class); 0-4 named instances at dyadic normalized locations. converter: fontdrasil CoordConverter vs reference piecewise-linear code on ~60 user values per axis (nodes, midpoints, just past nodes, random) + node round trips; fonts: fvar bounds exact, avar required nodes and monotonicity, fvar-default-normalisation + own avar evaluation vs reference design normalisation within 2^-14(1+slope)+2^-14, instance coordinates in range and mapping back to the source design location. non-trivial = the mapping bends (deviates from default normalisation by > 1/64); distinct = hash of the model";
pub const ASSUMPTIONS: &[&str] = &["user and design node values are multiples of 1/16 so Fixed 16.16 and the f32 parse of the designspace reader are exact", "flat map segments are generated only at interior nodes (design min/default/max stay unique)"];
