//! C10 — Mark attachment in the font places marks on the source's anchors.
use crate::ot::layout::{Layout, Tbl};
use crate::ot::outline::ot_round;
use crate::ot::Font;
use crate::props::c03::{attach_source, build, classify, describe, gid_map};
use crate::run::{CaseReport, Ctx, Part};
use crate::synth::build::BuildOpts;
use crate::synth::model::*;
use serde_json::json;
use std::collections::BTreeMap;

pub fn profile() -> Profile {
    Profile { min_axes: 1, max_axes: 3, min_glyphs: 4, max_glyphs: 11, anchors: true, latin_only: true, non_export: true, components: 3, sparse: 2, half_coords: false, ..Profile::base() }
}

/// anchors of `name` at source `si` as the source defines them: its own, or - in the propagation class
/// (ufo2ft propagateAnchors filter on, composite of exactly one untransformed component and no anchors of
/// its own) - the component's anchors moved by the component offset. None = not defined by this rule set.
pub fn model_anchors(f: &SynthFont, name: &str, si: usize, depth: usize) -> Option<Vec<(String, f64, f64)>> {
    let g = f.glyph(name)?;
    let src = g.sources.get(&si)?;
    if !src.anchors.is_empty() || !f.lib_filters.contains(&"propagateAnchors") || depth > 4 { return Some(src.anchors.clone()); }
    if src.contours.is_empty() && src.comps.len() == 1 && src.comps[0].xf[..4] == [1.0, 0.0, 0.0, 1.0] {
        let c = &src.comps[0];
        let base = f.glyph(&c.base)?;
        // a non-export component is inlined before anchors propagate (as in ufo2ft, where skipExportGlyphs are
        // decomposed when the glyph set is built); what the composite then carries is not modelled here
        if base.category != Some("base") || !base.export { return None; }
        let inner = model_anchors(f, &c.base, si, depth + 1)?;
        return Some(inner.into_iter().filter(|(n, _, _)| ANCHOR_NAMES.contains(&n.as_str())).map(|(n, x, y)| (n, x + c.xf[4], y + c.xf[5])).collect());
    }
    if src.comps.is_empty() { Some(vec![]) } else { None }
}

/// fontc (like ufo2ft) drops anchors whose group has no counterpart before it decides which glyphs are
/// marks; a mark whose own mark anchors are all dropped that way is then no mark for mark-to-mark
fn attaching_mark_is_a_mark_for_fontc(f: &SynthFont, b: &Glyph) -> bool {
    let Some(src) = b.sources.get(&0) else { return false };
    src.anchors.iter().filter_map(|a| a.0.strip_prefix('_')).any(|grp| {
        f.glyphs.iter().filter(|g| g.export && g.category.is_some()).any(|g| g.sources.get(&0).map(|s| s.anchors.iter().any(|a| a.0 == grp || a.0.strip_prefix(&format!("{grp}_")).map(|i| i.parse::<usize>().is_ok()).unwrap_or(false))).unwrap_or(false))
    })
}

pub fn describe_anchors(f: &SynthFont) -> serde_json::Value {
    json!(f.glyphs.iter().map(|g| json!({"glyph": g.name, "category": g.category, "export": g.export, "anchors": g.sources.iter().map(|(si, s)| json!([si, s.anchors])).collect::<Vec<_>>()})).collect::<Vec<_>>())
}

pub fn check_marks(rep: &mut CaseReport, f: &SynthFont, bytes: &[u8]) {
    let font = match Font::new(bytes) { Ok(x) => x, Err(e) => { rep.fail("output-unparseable", e); return; } };
    let gids = match gid_map(&font) { Ok(m) => m, Err(e) => { rep.fail("post-names-unreadable", e); return; } };
    let layout = match Layout::new(&font) { Ok(l) => l, Err(e) => { rep.fail("layout-tables-unreadable", e); return; } };
    if !f.categories_explicit { rep.discard = true; return; }
    // GDEF classes
    for g in f.glyphs.iter().filter(|g| g.export) {
        let Some(&gid) = gids.get(&g.name) else { continue };
        let want = match g.category { Some("base") => 1, Some("ligature") => 2, Some("mark") => 3, _ => continue };
        rep.evals += 1;
        if font.has(b"GDEF") && !layout.glyph_class.is_empty() && layout.class(gid) != want { rep.fail("gdef-class-differs-from-source-category", format!("{}: GDEF class {} vs source category {:?}", g.name, layout.class(gid), g.category)); return; }
    }
    let marks: Vec<&Glyph> = f.glyphs.iter().filter(|g| g.export && g.category == Some("mark")).collect();
    let mut groups_used = std::collections::BTreeSet::new();
    let mut moves = false;
    let mut pairs = 0u64;
    for b in f.glyphs.iter().filter(|g| g.export && g.category.is_some()) {
        let Some(&gb) = gids.get(&b.name) else { continue };
        let kind = match b.category { Some("base") => 4u16, Some("ligature") => 5, Some("mark") => 6, _ => continue };
        for m in &marks {
            let Some(&gm) = gids.get(&m.name) else { continue };
            // the mark's (single) mark anchor
            let Some(m0) = model_anchors(f, &m.name, 0, 0) else { continue };
            let Some((mark_anchor_name, _, _)) = m0.iter().find(|(n, _, _)| n.starts_with('_')) else { continue };
            let group = mark_anchor_name[1..].to_string();
            let Some(b0) = model_anchors(f, &b.name, 0, 0) else { rep.class("skipped-anchors-not-defined-by-the-modelled-propagation-rule"); continue };
            // attaching anchors of b in this group: (anchor name, ligature component)
            let attach: Vec<(String, usize)> = b0.iter().filter_map(|(n, _, _)| if kind == 5 { n.strip_prefix(&format!("{group}_")).and_then(|i| i.parse::<usize>().ok()).map(|i| (n.clone(), i - 1)) } else if *n == group { Some((n.clone(), 0)) } else { None }).collect();
            if attach.is_empty() { continue; }
            groups_used.insert(group.clone());
            let feature = if kind == 6 { "mkmk" } else { "mark" };
            for (aname, comp) in &attach {
                pairs += 1;
                // every source location of the attaching glyph (base anchor) and of the mark (mark anchor)
                let mut locs: BTreeMap<usize, (bool, bool)> = BTreeMap::new();
                for si in b.sources.keys() { locs.entry(*si).or_default().0 = true; }
                for si in m.sources.keys() { locs.entry(*si).or_default().1 = true; }
                for (si, (has_b, has_m)) in locs {
                    let coords = f.font_coords(&f.sources[si].norm);
                    for script in ["DFLT", "latn"] {
                        rep.evals += 1;
                        let lookups = match layout.lookups_for(Tbl::Gpos, script, "dflt", &coords, Some(&[feature])) { Ok(l) => l, Err(e) => { rep.fail("gpos-unreadable", e); return; } };
                        layout.reset_bounds();
                        let atts = if lookups.is_empty() { vec![] } else { match layout.mark_attachments(&lookups, kind, gb, gm, *comp, &coords) { Ok(a) => a, Err(e) => { rep.fail("gpos-evaluation-failed", e); return; } } };
                        if atts.is_empty() && kind == 6 && !attaching_mark_is_a_mark_for_fontc(f, b) {
                            // recorded finding: reported once, the other pairs are still checked
                            if !rep.failures.iter().any(|x| x.signature == "mkmk-attaching-mark-without-counterpart-for-its-own-mark-anchor") {
                                rep.fail("mkmk-attaching-mark-without-counterpart-for-its-own-mark-anchor", format!("mark {} carries base anchor {aname}, mark {} carries {mark_anchor_name}, but no mkmk lookup attaches them: {}'s own mark anchor has no attaching counterpart in the font, so fontc does not treat it as a mark when building mark-to-mark", b.name, m.name, b.name));
                            }
                            continue;
                        }
                        if atts.is_empty() { rep.fail("base-mark-pair-not-covered-by-a-mark-lookup", format!("{} anchor {aname} + mark {} ({mark_anchor_name}): no {feature} lookup for script {script} attaches them (kind {kind}, component {comp}); lookups {lookups:?}", b.name, m.name)); return; }
                        // with one mark anchor per mark there is one group per pair: the last applicable lookup decides
                        let att = atts.last().unwrap();
                        if has_b {
                            let Some(bl) = model_anchors(f, &b.name, si, 0) else { continue };
                            let Some((_, x, y)) = bl.iter().find(|(n, _, _)| n == aname) else { continue };
                            let (wx, wy) = (ot_round(*x), ot_round(*y));
                            let n_regions = b.sources.len().saturating_sub(1);
                            let tol = if si == 0 { 0.0 } else { layout.rounding_bound(n_regions) } + 1e-6;
                            if bl != b0 { moves = true; }
                            if (att.base.0 - wx).abs() > tol || (att.base.1 - wy).abs() > tol {
                                rep.fail(if si == 0 { "attaching-anchor-differs-at-default" } else { "attaching-anchor-differs-at-master" }, format!("{} anchor {aname} at source {si} {:?} script {script}: font ({:.3}, {:.3}) vs source ({wx}, {wy}) (tolerance {tol:.3}); mark {}", b.name, coords, att.base.0, att.base.1, m.name));
                                return;
                            }
                        }
                        if has_m {
                            let Some(ml) = model_anchors(f, &m.name, si, 0) else { continue };
                            let Some((_, x, y)) = ml.iter().find(|(n, _, _)| n == mark_anchor_name) else { continue };
                            let (wx, wy) = (ot_round(*x), ot_round(*y));
                            let n_regions = m.sources.len().saturating_sub(1);
                            let tol = if si == 0 { 0.0 } else { layout.rounding_bound(n_regions) } + 1e-6;
                            if (att.mark.0 - wx).abs() > tol || (att.mark.1 - wy).abs() > tol {
                                rep.fail(if si == 0 { "mark-anchor-differs-at-default" } else { "mark-anchor-differs-at-master" }, format!("mark {} anchor {mark_anchor_name} at source {si} {:?} script {script}: font ({:.3}, {:.3}) vs source ({wx}, {wy}) (tolerance {tol:.3}); attaching glyph {}", m.name, coords, att.mark.0, att.mark.1, b.name));
                                return;
                            }
                        }
                    }
                }
            }
        }
    }
    rep.nontrivial = groups_used.len() >= 2 && moves;
    rep.class(format!("anchor-groups={}", groups_used.len()));
    if pairs == 0 { rep.class("no-attaching-pair"); }
    if f.lib_filters.contains(&"propagateAnchors") { rep.class("propagate-anchors"); }
    if f.glyphs.iter().any(|g| g.export && g.category == Some("ligature") && g.sources.get(&0).map(|s| !s.anchors.is_empty()).unwrap_or(false)) { rep.class("ligature-anchors"); }
    if marks.iter().any(|m| m.sources.get(&0).map(|s| s.anchors.iter().any(|a| !a.0.starts_with('_'))).unwrap_or(false)) { rep.class("mark-to-mark"); }
}

pub fn check(ctx: &Ctx, genome: &[u16]) -> CaseReport {
    let mut rep = CaseReport::default();
    let f = SynthFont::decode(genome, &profile());
    rep.key = f.hash();
    classify(&mut rep, &f);
    rep.sample = Some(json!({"font": describe(&f), "anchors": describe_anchors(&f), "filters": f.lib_filters}));
    if ctx.dry { for (k, v) in crate::synth::ufo::render(&f) { rep.artifacts.push((k, v.into_bytes())); } return rep; }
    let Some(b) = build(ctx, &mut rep, f, &BuildOpts::default()) else { return rep };
    check_marks(&mut rep, &b.font, &b.bytes);
    attach_source(&mut rep, &b);
    rep
}

pub fn parts() -> Vec<Part> {
    vec![Part { name: "marks", genome_len: 2600, cases_quick: 1200, cases_thorough: 20_000, threads: 12, max_shrink_iters: 300, check: Box::new(check), remote: None }]
}
pub const RULE: &str = "genome -> SynthFont with 1-3 axes, 4-11 Latin / common glyphs with explicit public.openTypeCategories (base / ligature / mark), anchors top / bottom / ogonek: bases carry a subset, ligatures X_1 + X_2, marks exactly one _X plus optional base anchors (mark-to-mark), per-source anchor positions, sparse glyphs; optional ufo2ft propagateAnchors filter with composites of one untransformed component and no anchors of their own. For every (attaching glyph, anchor) x (mark with the matching _anchor) x every source location of either glyph x {DFLT, latn}: some lookup of mark / mkmk must define the attachment (own MarkBase / MarkLig / MarkMark reader), its base (component) anchor and mark anchor evaluated with variation deltas must equal the rounded source coordinates; GDEF classes equal the source categories. non-trivial = >= 2 anchor groups in use and an anchor that moves between masters";
pub const ASSUMPTIONS: &[&str] = &["glyph categories are explicit (public.openTypeCategories) so no category inference of fontc is mirrored", "each mark has exactly one mark anchor (with several the source does not define which attachment a shaper ends up with)", "anchor propagation is checked only for the shape 'composite of one untransformed exported base-category component, no own anchors' (expected = component anchors + offset); other composites are skipped and counted", "tolerance at non-default sources: 0.5 x (active scalars + regions optimised out); exact at the default"];
