mod synth;
mod genome;
mod ot;
mod props;
mod remote;
mod run;

use run::{Ctx, Part, Tier};
use std::path::PathBuf;
use std::time::Instant;

struct PropDef { parts: Vec<Part>, rule: &'static str, assumptions: &'static [&'static str], literal: Option<run::LiteralFn> }

fn prop_def(id: &str) -> Option<PropDef> {
    Some(match id {
        "C07" => PropDef { parts: props::c07::parts(), rule: props::c07::RULE, assumptions: props::c07::ASSUMPTIONS, literal: None },
        "C13" => PropDef { parts: props::c13::parts(), rule: props::c13::RULE, assumptions: props::c13::ASSUMPTIONS, literal: Some(props::c13::check_literal) },
        "C14" => PropDef { parts: props::c14::parts(), rule: props::c14::RULE, assumptions: props::c14::ASSUMPTIONS, literal: Some(props::c14::check_literal) },
        "C03" => PropDef { parts: props::c03::parts_c03(), rule: props::c03::RULE_C03, assumptions: props::c03::ASSUMPTIONS, literal: None },
        "C04" => PropDef { parts: props::c03::parts_c04(), rule: props::c03::RULE_C04, assumptions: props::c03::ASSUMPTIONS, literal: None },
        "C05" => PropDef { parts: props::c05::parts(), rule: props::c05::RULE, assumptions: props::c05::ASSUMPTIONS, literal: None },
        "C06" => PropDef { parts: props::c06::parts(), rule: props::c06::RULE, assumptions: props::c06::ASSUMPTIONS, literal: None },
        "C08" => PropDef { parts: props::c08::parts(), rule: props::c08::RULE, assumptions: props::c08::ASSUMPTIONS, literal: None },
        "C17" => PropDef { parts: props::c17::parts(), rule: props::c17::RULE, assumptions: props::c17::ASSUMPTIONS, literal: None },
        "C01" => PropDef { parts: props::c01::parts(), rule: props::c01::RULE, assumptions: props::c01::ASSUMPTIONS, literal: Some(props::c01::check_literal) },
        "C02" => PropDef { parts: props::c02::parts(), rule: props::c02::RULE, assumptions: props::c02::ASSUMPTIONS, literal: None },
        "C15" => PropDef { parts: props::c15::parts(), rule: props::c15::RULE, assumptions: props::c15::ASSUMPTIONS, literal: Some(props::c15::check_literal) },
        "C09" => PropDef { parts: props::c09::parts(), rule: props::c09::RULE, assumptions: props::c09::ASSUMPTIONS, literal: None },
        "C12" => PropDef { parts: props::c12::parts(), rule: props::c12::RULE, assumptions: props::c12::ASSUMPTIONS, literal: None },
        "C16" => PropDef { parts: props::c16::parts(), rule: props::c16::RULE, assumptions: props::c16::ASSUMPTIONS, literal: None },
        "C10" => PropDef { parts: props::c10::parts(), rule: props::c10::RULE, assumptions: props::c10::ASSUMPTIONS, literal: None },
        "C18" => PropDef { parts: props::c18::parts(), rule: props::c18::RULE, assumptions: props::c18::ASSUMPTIONS, literal: None },
        "C11" => PropDef { parts: props::c11::parts(), rule: props::c11::RULE, assumptions: props::c11::ASSUMPTIONS, literal: Some(props::c11::check_literal) },
        "C19" => PropDef { parts: props::c19::parts(), rule: props::c19::RULE, assumptions: props::c19::ASSUMPTIONS, literal: None },
        "C20" => PropDef { parts: props::c20::parts(), rule: props::c20::RULE, assumptions: props::c20::ASSUMPTIONS, literal: None },
        _ => return None,
    })
}

fn leak(s: String) -> &'static str { Box::leak(s.into_boxed_str()) }

fn main() {
    let args: Vec<String> = std::env::args().collect();
    if args.len() < 3 { eprintln!("usage: vf <Cxx> quick|thorough|--replay <path>"); std::process::exit(2); }
    let id = leak(args[1].clone());
    let seed: u64 = std::env::var("VERIF_SEED").ok().and_then(|s| s.parse::<i64>().ok()).map(|v| v as u64).unwrap_or(20260923);
    let home = PathBuf::from(std::env::var("VF_HOME").unwrap_or_else(|_| "/verif".into()));
    let out = std::env::var("VF_OUT").map(PathBuf::from).unwrap_or_else(|_| home.clone());
    let repo = PathBuf::from(std::env::var("VF_REPO_ROOT").unwrap_or_else(|_| "/repo".into()));
    let work = std::env::var("VF_WORK").map(PathBuf::from).unwrap_or_else(|_| home.join("target/work")).join(format!("{}-{}", id, std::process::id()));
    let _ = std::fs::create_dir_all(&work);
    if std::env::var_os("RAYON_NUM_THREADS").is_none() {
        // each fontc build creates its own rayon pool; the harness supplies the parallelism
        unsafe { std::env::set_var("RAYON_NUM_THREADS", "2"); }
    }
    run::install_panic_hook();
    let Some(def) = prop_def(id) else { eprintln!("no check registered for {id}"); std::process::exit(2); };
    if args[2] == "--serve" {
        let tier = if std::env::var("VF_TIER").as_deref() == Ok("thorough") { Tier::Thorough } else { Tier::Quick };
        let ctx = Ctx { prop: id, tier, seed, home, out, repo, work, strict: false, in_child: true, dry: false };
        let part = def.parts.iter().find(|p| p.name == args[3]).expect("part");
        remote::serve(&ctx, part, part.remote.expect("remote cfg"));
        let _ = std::fs::remove_dir_all(&ctx.work);
        return;
    }
    if args[2] == "--literal" {
        let ctx = Ctx { prop: id, tier: Tier::Quick, seed, home, out, repo, work, strict: true, in_child: true, dry: false };
        let v: serde_json::Value = serde_json::from_str(&std::fs::read_to_string(&args[3]).expect("read")).expect("json");
        // same stack as the fontc worker threads that run the feature job
        let rep = std::thread::Builder::new().stack_size(2 << 20).spawn(move || {
            let f = prop_def(ctx.prop).unwrap().literal.expect("literal");
            match std::panic::catch_unwind(std::panic::AssertUnwindSafe(|| f(&ctx, &v))) { Ok(r) => r, Err(_) => { let mut r = run::CaseReport::default(); r.fail("panic-in-literal", run::LAST_PANIC.with(|p| p.borrow().clone())); r } }
        }).unwrap().join().unwrap();
        println!("{}", remote::report_to_json(&rep));
        return;
    }
    let replay = args[2] == "--replay";
    let tier = if args[2] == "thorough" { Tier::Thorough } else { Tier::Quick };
    let ctx = Ctx { prop: id, tier, seed, home: home.clone(), out: out.clone(), repo, work: work.clone(), strict: replay, in_child: false, dry: false };
    let t0 = Instant::now();
    let mut exit = 0;
    if replay {
        let path = PathBuf::from(&args[3]);
        let (known, unknown) = run::replay_file(&ctx, &def.parts, def.literal, &path);
        for f in &known { println!("KNOWN-FINDING: property={id} [{}] {}", f.signature, f.detail.chars().take(300).collect::<String>()); }
        for f in &unknown { println!("VIOLATION property={id} replay={}", path.display()); println!("  {} :: {}", f.signature, f.detail.chars().take(600).collect::<String>()); exit = 1; }
        if unknown.is_empty() { println!("replay: property held on this case"); }
    } else {
        // replay tier: every committed replay first
        let mut replayed = 0;
        let rdir = home.join("replays").join(id);
        let mut stored: Vec<PathBuf> = std::fs::read_dir(&rdir).map(|d| d.filter_map(|e| e.ok()).map(|e| e.path().join("case.json")).filter(|p| p.exists()).collect()).unwrap_or_default();
        stored.sort();
        let mut known_lines = std::collections::BTreeSet::new();
        for p in &stored {
            let (known, unknown) = run::replay_file(&ctx, &def.parts, def.literal, p);
            replayed += 1;
            for f in known { known_lines.insert(f.signature); }
            for f in &unknown { println!("VIOLATION property={id} replay={}", p.display()); println!("  {} :: {}", f.signature, f.detail.chars().take(600).collect::<String>()); exit = 1; }
        }
        let mut out = run::run_parts(&ctx, &def.parts);
        let kn = run::load_known(&home, id);
        for sig in known_lines {
            if !out.known_printed.iter().any(|l| l.contains(&format!("[{sig}]"))) {
                let what = kn.iter().find(|k| k.signature == sig).map(|k| k.what.clone()).unwrap_or_default();
                let line = format!("KNOWN-FINDING: property={id} {what} [{sig}] (stored replay)");
                println!("{line}"); out.known_printed.push(line);
            }
        }
        if !out.violations.is_empty() { exit = 1; }
        let nviol = out.violations.len() + if exit == 1 && out.violations.is_empty() { 1 } else { 0 };
        let _ = nviol;
        run::write_evidence(&ctx, &out, def.rule, def.assumptions, t0.elapsed().as_secs_f64(), serde_json::json!({"stored_replays_run": replayed}));
        println!("{id} {:?}: cases={} evaluations={} distinct_nontrivial={} violations={} wall={:.1}s", tier, out.cases, out.evals, out.nontrivial, out.violations.len(), t0.elapsed().as_secs_f64());
    }
    let _ = std::fs::remove_dir_all(&work);
    std::process::exit(exit);
}
