use read_fonts::{FontRef, TableProvider};
fn main() {
    for path in std::env::args().skip(1) {
        let bytes = std::fs::read(&path).unwrap();
        let f = FontRef::new(&bytes).unwrap();
        let gsub = f.gsub().unwrap();
        let fl = gsub.feature_list().unwrap();
        let tags: Vec<String> = fl.feature_records().iter().map(|r| r.feature_tag().to_string()).collect();
        print!("{path}: features {tags:?}");
        let sl = gsub.script_list().unwrap();
        for s in sl.script_records() { let sc = s.script(sl.offset_data()).unwrap(); if let Some(Ok(d)) = sc.default_lang_sys() { print!(" script {} default-langsys features {:?}", s.script_tag(), d.feature_indices().iter().map(|i| i.get()).collect::<Vec<_>>()); } }
        if let Some(Ok(fv)) = gsub.feature_variations() {
            for rec in fv.feature_variation_records() {
                if let Some(Ok(cs)) = rec.condition_set(fv.offset_data()) { let v: Vec<String> = cs.conditions().iter().map(|c| match c { Ok(read_fonts::tables::layout::Condition::Format1AxisRange(c)) => format!("axis{} [{}, {}]", c.axis_index(), c.filter_range_min_value().to_f32(), c.filter_range_max_value().to_f32()), _ => "?".into() }).collect(); print!(" condset {v:?}"); } else { print!(" condset <none>"); }
                if let Some(Ok(subst)) = rec.feature_table_substitution(fv.offset_data()) {
                    let v: Vec<_> = subst.substitutions().iter().map(|s| (s.feature_index(), s.alternate_feature(subst.offset_data()).map(|f| f.lookup_list_indices().iter().map(|i| i.get()).collect::<Vec<_>>()).unwrap_or_default())).collect();
                    print!(" fv-subst {v:?}");
                }
            }
        }
        println!();
        let ll = gsub.lookup_list().unwrap();
        for (i, l) in ll.lookups().iter().enumerate() { if let Ok(read_fonts::tables::gsub::SubstitutionLookup::Single(l)) = l { for st in l.subtables().iter().flatten() { match st { read_fonts::tables::gsub::SingleSubst::Format1(s) => println!("  lookup {i}: fmt1 cov {:?} delta {}", s.coverage().unwrap().iter().collect::<Vec<_>>(), s.delta_glyph_id()), read_fonts::tables::gsub::SingleSubst::Format2(s) => println!("  lookup {i}: fmt2 cov {:?} -> {:?}", s.coverage().unwrap().iter().collect::<Vec<_>>(), s.substitute_glyph_ids()) } } } }
    }
}
