//! Formatting-only rewrites of UFO files: XML attribute order, indentation, and key order of XML
//! property-list dictionaries. Leaf elements are copied verbatim.

/// reverse the attribute order of every element start tag and change the indentation
pub fn reorder_xml_attributes(text: &str, indent_with: &str) -> String {
    let b = text.as_bytes();
    let mut out = String::with_capacity(text.len() + 64);
    let mut i = 0;
    while i < b.len() {
        if b[i] == b'<' && i + 1 < b.len() && (b[i + 1] as char).is_ascii_alphabetic() {
            // element start tag
            let Some(end) = text[i..].find('>') else { out.push_str(&text[i..]); break };
            let tag = &text[i + 1..i + end];
            let (body, selfclose) = match tag.strip_suffix('/') { Some(t) => (t, true), None => (tag, false) };
            let name_end = body.find(|c: char| c.is_whitespace()).unwrap_or(body.len());
            let name = &body[..name_end];
            let mut attrs: Vec<&str> = vec![];
            let rest = &body[name_end..];
            let rb = rest.as_bytes();
            let mut j = 0; let mut ok = true;
            while j < rb.len() {
                while j < rb.len() && (rb[j] as char).is_whitespace() { j += 1; }
                if j >= rb.len() { break; }
                let s = j;
                while j < rb.len() && rb[j] != b'=' { j += 1; }
                if j + 1 >= rb.len() || (rb[j + 1] != b'"' && rb[j + 1] != b'\'') { ok = false; break; }
                let q = rb[j + 1]; j += 2;
                while j < rb.len() && rb[j] != q { j += 1; }
                if j >= rb.len() { ok = false; break; }
                j += 1;
                attrs.push(&rest[s..j]);
            }
            if ok && attrs.len() >= 2 {
                out.push('<'); out.push_str(name);
                for a in attrs.iter().rev() { out.push(' '); out.push_str(a); }
                if selfclose { out.push_str(" /"); }
                out.push('>');
            } else { out.push_str(&text[i..i + end + 1]); }
            i += end + 1;
        } else if b[i] == b'\n' {
            out.push('\n');
            i += 1;
            let s = i;
            while i < b.len() && (b[i] == b' ' || b[i] == b'\t') { i += 1; }
            let depth = (i - s).div_ceil(2);
            // only re-indent lines that start with markup (text content of <string> values may span lines)
            if i < b.len() && b[i] == b'<' { for _ in 0..depth { out.push_str(indent_with); } } else { out.push_str(&text[s..i]); }
        } else {
            let ch = text[i..].chars().next().unwrap();
            out.push(ch); i += ch.len_utf8();
        }
    }
    out
}

#[derive(Clone, Debug)]
enum X { Dict(Vec<(String, X)>), Array(Vec<X>), Leaf(String) }

struct XP<'a> { t: &'a str, i: usize }
impl<'a> XP<'a> {
    fn ws(&mut self) { while self.i < self.t.len() && self.t.as_bytes()[self.i].is_ascii_whitespace() { self.i += 1; } }
    fn eat(&mut self, s: &str) -> bool { self.ws(); if self.t[self.i..].starts_with(s) { self.i += s.len(); true } else { false } }
    fn value(&mut self, depth: usize) -> Option<X> {
        if depth > 64 { return None; }
        self.ws();
        if self.eat("<dict>") {
            let mut items = vec![];
            loop {
                if self.eat("</dict>") { break; }
                if !self.eat("<key>") { return None; }
                let e = self.t[self.i..].find("</key>")?;
                let k = self.t[self.i..self.i + e].to_string();
                self.i += e + 6;
                items.push((k, self.value(depth + 1)?));
            }
            return Some(X::Dict(items));
        }
        if self.eat("<dict/>") { return Some(X::Dict(vec![])); }
        if self.eat("<array>") {
            let mut items = vec![];
            loop { if self.eat("</array>") { break; } items.push(self.value(depth + 1)?); }
            return Some(X::Array(items));
        }
        if self.eat("<array/>") { return Some(X::Array(vec![])); }
        // leaf: <tag>...</tag> or <tag/>
        if !self.t[self.i..].starts_with('<') { return None; }
        let close = self.t[self.i..].find('>')?;
        let tag = &self.t[self.i + 1..self.i + close];
        if tag.ends_with('/') { let s = self.t[self.i..self.i + close + 1].to_string(); self.i += close + 1; return Some(X::Leaf(s)); }
        let name = tag.split_whitespace().next()?;
        if !matches!(name, "string" | "integer" | "real" | "data" | "date") { return None; }
        let endtag = format!("</{name}>");
        let e = self.t[self.i..].find(&endtag)?;
        let s = self.t[self.i..self.i + e + endtag.len()].to_string();
        self.i += e + endtag.len();
        Some(X::Leaf(s))
    }
}

fn emit(x: &X, level: usize, reverse: bool, out: &mut String) {
    let pad = "\t".repeat(level);
    match x {
        X::Leaf(s) => { out.push_str(&pad); out.push_str(s); out.push('\n'); }
        X::Array(a) => { out.push_str(&pad); out.push_str("<array>\n"); for v in a { emit(v, level + 1, reverse, out); } out.push_str(&pad); out.push_str("</array>\n"); }
        X::Dict(d) => {
            out.push_str(&pad); out.push_str("<dict>\n");
            let it: Vec<&(String, X)> = if reverse { d.iter().rev().collect() } else { d.iter().collect() };
            for (k, v) in it { out.push_str(&pad); out.push_str("\t<key>"); out.push_str(k); out.push_str("</key>\n"); emit(v, level + 1, reverse, out); }
            out.push_str(&pad); out.push_str("</dict>\n");
        }
    }
}

/// the same XML property list with every dictionary's keys in reverse order and tab indentation; None if
/// the text is not a plain XML plist this little reader understands (then the file is left alone)
pub fn reverse_plist_keys(text: &str) -> Option<String> {
    let start = text.find("<plist")?;
    let open_end = start + text[start..].find('>')? + 1;
    let mut p = XP { t: text, i: open_end };
    let v = p.value(0)?;
    if !p.eat("</plist>") { return None; }
    let mut out = String::from(&text[..open_end]);
    out.push('\n');
    emit(&v, 0, true, &mut out);
    out.push_str("</plist>\n");
    Some(out)
}
