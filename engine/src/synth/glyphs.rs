//! Writes a SynthFont as Glyphs 3 text (the subset the outline / advance properties need): axes, masters,
//! glyphs with one layer per master, intermediate ("brace") layers with full or partial coordinates,
//! paths (line / cubic / quadratic nodes), components with offset and scale, export flags, codepoints.
//! `prepare` first brings a decoded model into the shape the format can express.
use super::model::*;
use crate::genome::Gen;
use std::fmt::Write as _;

fn n(v: f64) -> String { super::ufo::num(v) }
fn q(s: &str) -> String { if !s.is_empty() && s.chars().all(|c| c.is_ascii_alphanumeric() || c == '_' || c == '.') && !s.chars().next().unwrap().is_ascii_digit() { s.to_string() } else { format!("\"{}\"", s.replace('\\', "\\\\").replace('"', "\\\"")) } }

/// Make the model expressible: every glyph drawn in every full master (a Glyphs glyph has a layer per master),
/// no rotation / shear in component transforms, identity axis maps, no heights, no point axes.
/// With >= 2 axes one glyph gets an extra intermediate layer attached to a non-default master and written with
/// fewer coordinates than axes (the omitted ones are the attached master's).
pub fn prepare(f: &mut SynthFont, g: &mut Gen) -> Option<(usize, usize)> {
    if f.axes.iter().any(|a| a.is_point()) || f.axes.is_empty() { return None; }
    for a in f.axes.iter_mut() { a.map = None; }
    let full: Vec<usize> = f.full_sources().map(|(i, _)| i).collect();
    for gl in f.glyphs.iter_mut() {
        let d = gl.sources.get(&0)?.clone();
        for si in &full { gl.sources.entry(*si).or_insert_with(|| d.clone()); }
        for s in gl.sources.values_mut() { s.height = None; for c in s.comps.iter_mut() { if c.xf[1] != 0.0 || c.xf[2] != 0.0 { c.xf[0] = 1.0; c.xf[1] = 0.0; c.xf[2] = 0.0; c.xf[3] = 1.0; } } }
    }
    for s in f.sources.iter_mut() { s.info.metrics.retain(|k, _| !k.starts_with("openTypeVhea")); }
    // a master repeating another one's file keeps its own name: the front end picks the default master by name when no origin is declared
    for s in f.sources.iter_mut() { if s.name.starts_with("plateau_") { s.info.style = Some("Plateau".into()); } }
    // partial-coordinate layer: location = (v on axis 0, the attached master's coordinates elsewhere)
    let mut special = None;
    if f.axes.len() >= 2 && g.chance(2, 3) {
        let cands: Vec<usize> = full.iter().copied().filter(|si| *si != 0 && f.sources[*si].norm[0] == 0.0 && f.sources[*si].norm[1..].iter().any(|v| *v != 0.0)).collect();
        if !cands.is_empty() {
            let m = cands[g.below(cands.len())];
            let a0 = &f.axes[0];
            let v = if a0.d_above > 0.0 { *g.pick(&[0.5, 0.25, 0.75]) } else { -*g.pick(&[0.5, 0.25, 0.75]) };
            let mut norm = f.sources[m].norm.clone(); norm[0] = v;
            if !f.sources.iter().any(|s| s.norm == norm) {
                let gi = g.below(f.glyphs.len());
                let si = f.sources.len();
                f.sources.push(Source { name: format!("partial_{si}"), ufo: "M0.ufo".into(), layer: Some(format!("P{si}")), norm, info: Default::default(), kerning: None });
                let mut d = f.glyphs[gi].sources[&m].clone();
                for c in d.contours.iter_mut() { for (k, p) in c.pts.iter_mut().enumerate() { p.x += ((k * 7) % 11) as f64 - 5.0; p.y += ((k * 5) % 9) as f64 - 4.0; } }
                d.advance += 7.0;
                f.glyphs[gi].sources.insert(si, d);
                special = Some((si, m));
            }
        }
    }
    special
}

pub fn render(f: &SynthFont, partial: Option<(usize, usize)>) -> String {
    let mut s = String::from("{\n.appVersion = \"3300\";\n.formatVersion = 3;\naxes = (\n");
    for (i, a) in f.axes.iter().enumerate() { let _ = write!(s, "{{\nname = {};\ntag = {};\n}}{}\n", q(&a.name), q(&a.tag), if i + 1 < f.axes.len() { "," } else { "" }); }
    s.push_str(");\ncustomParameters = (\n{\nname = \"Don't use Production Names\";\nvalue = 1;\n},\n{\nname = \"Propagate Anchors\";\nvalue = 0;\n}\n);\nfamilyName = Synth;\nfontMaster = (\n");
    let full: Vec<usize> = f.full_sources().map(|(i, _)| i).collect();
    for (k, si) in full.iter().enumerate() {
        let src = &f.sources[*si];
        let _ = write!(s, "{{\naxesValues = (\n{}\n);\nid = m{si};\nmetricValues = (\n{{\npos = {};\n}},\n{{\npos = {};\n}},\n{{\npos = {};\n}},\n{{\n}},\n{{\npos = {};\n}},\n{{\n}}\n);\nname = {};\n}}{}\n",
            f.design_loc(*si).iter().map(|v| n(*v)).collect::<Vec<_>>().join(",\n"), n(src.info.ascender.unwrap_or(800.0)), n(src.info.cap_height.unwrap_or(700.0)), n(src.info.x_height.unwrap_or(500.0)), n(src.info.descender.unwrap_or(-200.0)),
            q(src.info.style.as_deref().unwrap_or("Regular")), if k + 1 < full.len() { "," } else { "" });
    }
    s.push_str(");\nglyphs = (\n");
    for (gi, gl) in f.glyphs.iter().enumerate() {
        let _ = write!(s, "{{\n");
        if !gl.export { s.push_str("export = 0;\n"); }
        let _ = write!(s, "glyphname = {};\nlayers = (\n", q(&gl.name));
        let keys: Vec<usize> = gl.sources.keys().copied().collect();
        for (k, si) in keys.iter().enumerate() {
            let src = &f.sources[*si]; let d = &gl.sources[si];
            s.push_str("{\n");
            if src.layer.is_some() {
                // intermediate layer: attached to a master, located by its coordinates
                let (assoc, n_coords) = match partial { Some((psi, m)) if psi == *si => (m, 1), _ => (0, f.axes.len()) };
                let design = f.design_loc(*si);
                // trailing axes at the attached master's value may be left out; on-axis layers of the default master list the axes up to the one they move on
                let n_coords = if assoc == 0 { let last = src.norm.iter().rposition(|v| *v != 0.0).unwrap_or(0); (last + 1).max(1).min(n_coords) } else { n_coords };
                let _ = write!(s, "associatedMasterId = m{assoc};\nattr = {{\ncoordinates = (\n{}\n);\n}};\nlayerId = \"b{si}g{gi}\";\nname = \"{{{}}}\";\n", design[..n_coords].iter().map(|v| n(*v)).collect::<Vec<_>>().join(",\n"), design[..n_coords].iter().map(|v| n(*v)).collect::<Vec<_>>().join(", "));
            } else { let _ = write!(s, "layerId = m{si};\n"); }
            if !d.contours.is_empty() || !d.comps.is_empty() {
                s.push_str("shapes = (\n");
                let mut shapes: Vec<String> = vec![];
                for c in &d.contours {
                    let nodes: Vec<String> = c.pts.iter().map(|p| format!("({},{},{})", n(p.x), n(p.y), match p.typ { PtType::Off => "o", PtType::Curve => "c", PtType::QCurve => "q", _ => "l" })).collect();
                    shapes.push(format!("{{\nclosed = 1;\nnodes = (\n{}\n);\n}}", nodes.join(",\n")));
                }
                for c in &d.comps {
                    let mut t = String::from("{\n");
                    if c.xf[4] != 0.0 || c.xf[5] != 0.0 { let _ = write!(t, "pos = ({},{});\n", n(c.xf[4]), n(c.xf[5])); }
                    let _ = write!(t, "ref = {};\n", q(&c.base));
                    if c.xf[0] != 1.0 || c.xf[3] != 1.0 { let _ = write!(t, "scale = ({},{});\n", n(c.xf[0]), n(c.xf[3])); }
                    t.push('}');
                    shapes.push(t);
                }
                s.push_str(&shapes.join(",\n")); s.push_str("\n);\n");
            }
            let _ = write!(s, "width = {};\n}}{}\n", n(d.advance), if k + 1 < keys.len() { "," } else { "" });
        }
        s.push_str(");\n");
        match gl.codepoints.len() { 0 => {}, 1 => { let _ = write!(s, "unicode = {};\n", gl.codepoints[0]); } _ => { let _ = write!(s, "unicode = ({});\n", gl.codepoints.iter().map(|c| c.to_string()).collect::<Vec<_>>().join(",")); } }
        let _ = write!(s, "}}{}\n", if gi + 1 < f.glyphs.len() { "," } else { "" });
    }
    let _ = write!(s, ");\nmetrics = (\n{{\ntype = ascender;\n}},\n{{\ntype = \"cap height\";\n}},\n{{\ntype = \"x-height\";\n}},\n{{\ntype = baseline;\n}},\n{{\ntype = descender;\n}},\n{{\ntype = \"italic angle\";\n}}\n);\nunitsPerEm = {};\nversionMajor = 1;\nversionMinor = 0;\n}}\n", f.upem);
    s
}
