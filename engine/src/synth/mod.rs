pub mod build;
pub mod model;
pub mod ufo;
pub mod corpus;
pub mod gplist;
pub mod reformat;
pub mod glyphs;
