//! C01 — Repeatable builds: same source and options give a byte-identical font.
use crate::genome::{fnv_str, Gen};
use crate::ot::sfnt::{be16, be32};
use crate::props::c03::{classify, describe};
use crate::props::c05::{all_facets, gen_opts};
use crate::run::{CaseReport, Ctx, Part};
use crate::synth::build::{compile_path, BuildOpts, Scratch};
use crate::synth::corpus::fixtures;
use crate::synth::model::*;
use crate::synth::ufo;
use serde_json::json;
use std::collections::BTreeMap;
use std::path::{Path, PathBuf};
use std::process::Command;

pub fn tables(d: &[u8]) -> BTreeMap<String, &[u8]> {
    let mut m = BTreeMap::new();
    let n = be16(d, 4).unwrap_or(0) as usize;
    for i in 0..n {
        let o = 12 + 16 * i;
        if let (Some(tag), Some(off), Some(len)) = (d.get(o..o + 4), be32(d, o + 8), be32(d, o + 12)) {
            if let Some(body) = d.get(off as usize..(off + len) as usize) { m.insert(String::from_utf8_lossy(tag).to_string(), body); }
        }
    }
    m
}

pub fn first_difference(a: &[u8], b: &[u8]) -> String {
    let (ta, tb) = (tables(a), tables(b));
    for (tag, body) in &ta {
        match tb.get(tag) {
            None => return format!("table '{tag}' only in the first"),
            Some(other) if other != body => {
                if tag == "head" && body.len() == other.len() && body.iter().zip(other.iter()).enumerate().all(|(i, (x, y))| x == y || (8..12).contains(&i)) { continue; }
                let at = body.iter().zip(other.iter()).position(|(x, y)| x != y).unwrap_or(body.len().min(other.len()));
                return format!("table '{tag}' differs at offset {at} (lengths {} / {})", body.len(), other.len());
            }
            _ => {}
        }
    }
    for tag in tb.keys() { if !ta.contains_key(tag) { return format!("table '{tag}' only in the second"); } }
    "directory / padding only".into()
}

pub fn differing_table(a: &[u8], b: &[u8]) -> String {
    first_difference(a, b).split('\'').nth(1).unwrap_or("container").to_string()
}

pub fn run_cli(fontc: &Path, source: &Path, opts: &BuildOpts, work: &Path, threads: usize, emit_ir: bool) -> Result<Vec<u8>, String> {
    let out = work.join("out.ttf");
    let _ = std::fs::remove_file(&out);
    let mut cmd = Command::new(fontc);
    cmd.arg(source).arg("-o").arg(&out).arg("--build-dir").arg(work.join("build")).args(opts.cli_args()).arg("--log").arg("error");
    if emit_ir { cmd.arg("--emit-ir"); }
    cmd.env("RAYON_NUM_THREADS", threads.to_string()).env("SOURCE_DATE_EPOCH", std::env::var("SOURCE_DATE_EPOCH").unwrap_or_else(|_| "1700000000".into()));
    let o = cmd.output().map_err(|e| format!("spawn: {e}"))?;
    if !o.status.success() { return Err(format!("exit {:?}: {}", o.status.code(), String::from_utf8_lossy(&o.stderr).lines().last().unwrap_or(""))); }
    std::fs::read(&out).map_err(|e| format!("no output: {e}"))
}

pub fn error_kind(e: &str) -> String {
    let mut out = String::new();
    let mut quote: Option<char> = None;
    for ch in e.chars() {
        match quote { Some(q) => { if ch == q { quote = None; } } None => { if ch == '\'' || ch == '"' { quote = Some(ch); out.push('_'); } else if !ch.is_ascii_digit() { out.push(ch); } } }
    }
    out
}

pub fn fontc_dev() -> PathBuf { PathBuf::from(std::env::var("VF_FONTC_DEV").unwrap_or_else(|_| "/verif/target/cli/debug/fontc".into())) }

/// compare repeated builds of one (source, options); returns number of builds compared
pub fn repeat_builds(ctx: &Ctx, rep: &mut CaseReport, source: &Path, opts: &BuildOpts, n_inproc: usize, cli_threads: &[usize]) -> usize {
    // in-process: two threads so builds overlap; each HashMap gets fresh hash keys per build
    let results: Vec<Result<Vec<u8>, String>> = std::thread::scope(|s| {
        let hs: Vec<_> = (0..2).map(|t| { let n = n_inproc / 2 + if t == 0 { n_inproc % 2 } else { 0 }; s.spawn(move || (0..n).map(|_| compile_path(source, opts).map_err(|e| e.text().to_string())).collect::<Vec<_>>()) }).collect();
        hs.into_iter().flat_map(|h| h.join().unwrap_or_default()).collect()
    });
    let mut compared = results.len();
    let first = &results[0];
    for (i, r) in results.iter().enumerate().skip(1) {
        match (first, r) {
            (Ok(a), Ok(b)) if a != b => { rep.fail(format!("library-builds-differ:{}", differing_table(a, b)), format!("in-process build 0 vs {i} ({}): {}", opts.label(), first_difference(a, b))); break; }
            (Ok(_), Err(e)) | (Err(e), Ok(_)) => { rep.fail("library-build-outcome-differs", format!("build 0 vs {i}: one succeeded, the other failed: {e}")); break; }
            // which job reports first may differ; the kind of error (message without quoted names / paths / numbers) must not
            (Err(a), Err(b)) if error_kind(a) != error_kind(b) => { rep.fail("library-build-error-differs", format!("{a} / {b}")); break; }
            _ => {}
        }
    }
    // CLI processes with different worker-thread counts
    let fontc = fontc_dev();
    if fontc.exists() && !cli_threads.is_empty() {
        let scratch = Scratch::new(&ctx.work);
        let cli: Vec<Result<Vec<u8>, String>> = cli_threads.iter().map(|t| run_cli(&fontc, source, opts, scratch.path(), *t, false)).collect();
        compared += cli.len();
        for (i, r) in cli.iter().enumerate().skip(1) {
            match (&cli[0], r) {
                (Ok(a), Ok(b)) if a != b => { rep.fail(format!("cli-builds-differ:{}", differing_table(a, b)), format!("RAYON_NUM_THREADS={} vs {} ({}): {}", cli_threads[0], cli_threads[i], opts.label(), first_difference(a, b))); break; }
                (Ok(_), Err(e)) | (Err(e), Ok(_)) => { rep.fail("cli-build-outcome-differs", format!("threads {} vs {}: {e}", cli_threads[0], cli_threads[i])); break; }
                _ => {}
            }
        }
        // CLI vs library: everything but the name table (it carries the compiler's own version string, and the two are separate builds of the compiler)
        if let (Ok(a), Ok(b)) = (first, &cli[0]) {
            let (ta, tb) = (tables(a), tables(b));
            for (tag, body) in &ta { if tag != "name" && tag != "head" && tb.get(tag).map(|x| x != body).unwrap_or(true) { rep.fail(format!("cli-and-library-differ:{tag}"), format!("{}: {}", opts.label(), first_difference(a, b))); break; } }
        }
        if first.is_ok() != cli[0].is_ok() { rep.fail("cli-and-library-outcome-differ", format!("library {:?} cli {:?}", first.as_ref().err(), cli[0].as_ref().err())); }
    }
    compared
}

pub fn check_synth(ctx: &Ctx, genome: &[u16]) -> CaseReport {
    let mut rep = CaseReport::default();
    let mut g = Gen::new(genome);
    let mut og = g.fork(12);
    let opts = if og.chance(1, 2) { BuildOpts::default() } else { gen_opts(&mut og) };
    let f = SynthFont::decode(&genome[12.min(genome.len())..], &all_facets());
    rep.key = f.hash() ^ fnv_str(&opts.label());
    classify(&mut rep, &f);
    rep.sample = Some(json!({"options": opts.label(), "font": describe(&f)}));
    let files = ufo::render(&f);
    if ctx.dry { for (k, v) in files { rep.artifacts.push((k, v.into_bytes())); } return rep; }
    let scratch = Scratch::new(&ctx.work);
    let ds = ufo::write_tree(scratch.path(), &files).expect("write tree");
    let n = repeat_builds(ctx, &mut rep, &ds, &opts, 8, &[1, 16]);
    rep.evals = n as u64;
    let non_default_masters = f.full_sources().count().saturating_sub(1);
    rep.nontrivial = f.is_variable() && (non_default_masters >= 2 || !f.instances.is_empty()) && n >= 8;
    if !rep.failures.is_empty() { for (k, v) in &files { rep.artifacts.push((k.clone(), v.clone().into_bytes())); } }
    rep
}

pub fn check_corpus(ctx: &Ctx, genome: &[u16]) -> CaseReport {
    let mut rep = CaseReport::default();
    let mut g = Gen::new(genome);
    let fx = fixtures(ctx);
    if fx.is_empty() { rep.discard = true; return rep; }
    let i = g.below(fx.len());
    let opts = if g.chance(2, 3) { BuildOpts::default() } else { gen_opts(&mut g) };
    let rel = fx[i].strip_prefix(&ctx.repo).unwrap_or(&fx[i]).display().to_string();
    rep.key = fnv_str(&rel) ^ fnv_str(&opts.label());
    rep.sample = Some(json!({"fixture": rel, "options": opts.label()}));
    if ctx.dry { return rep; }
    let n = repeat_builds(ctx, &mut rep, &fx[i], &opts, 8, &[1, 16]);
    rep.evals = n as u64;
    rep.nontrivial = n >= 8;
    rep.class(if rel.ends_with(".glyphs") || rel.ends_with(".glyphspackage") { "glyphs-source" } else if rel.ends_with(".fontra") { "fontra-source" } else { "ufo-or-designspace-source" });
    rep
}

/// stored literal case: {"fixture": "<path relative to the repo>", "cli_args": [...], "builds": n}
pub fn check_literal(ctx: &Ctx, v: &serde_json::Value) -> CaseReport {
    let mut rep = CaseReport::default();
    let path = ctx.repo.join(v["fixture"].as_str().unwrap_or(""));
    let mut opts = BuildOpts::default();
    for a in v["cli_args"].as_array().into_iter().flatten().filter_map(|a| a.as_str()) {
        match a { "--flatten-components" => opts.flatten = true, "--decompose-components" => opts.decompose = true, "--decompose-transformed-components" => opts.decompose_transformed = true,
            "--keep-direction" => opts.keep_direction = true, "--no-production-names" => opts.no_production_names = true, "--propagate-anchors=true" => opts.propagate_anchors = Some(true), "--skip-features" => opts.skip_features = true, _ => {} }
    }
    let n = v["builds"].as_u64().unwrap_or(12) as usize;
    rep.evals = repeat_builds(ctx, &mut rep, &path, &opts, n, &[1, 16]) as u64;
    rep
}

pub fn parts() -> Vec<Part> {
    vec![
        Part { name: "synth", genome_len: 1500, cases_quick: 160, cases_thorough: 4000, threads: 8, max_shrink_iters: 120, check: Box::new(check_synth), remote: None },
        Part { name: "corpus", genome_len: 16, cases_quick: 150, cases_thorough: 3000, threads: 8, max_shrink_iters: 40, check: Box::new(check_corpus), remote: None },
    ]
}
pub const RULE: &str = "a (source, options) pair: SynthFont with every facet on, or a fixture of resources/testdata, x default or generated options; built 8 times through the library entry point in two overlapping threads (fresh hash keys per HashMap per build) and by 2 fontc processes with RAYON_NUM_THREADS 1 and 16; all library builds must be byte-identical, all CLI builds must be byte-identical, CLI and library must agree on every table except name/head checksum (separate builds of the compiler stamp their own version string); build errors must repeat. evaluations = builds compared. non-trivial = variable source with >=2 non-default masters or >=1 instance (synth) / any fixture, >=8 builds compared; distinct = hash(model or fixture, options)";
pub const ASSUMPTIONS: &[&str] = &["hash seeds and OS schedules are sampled, not enumerated: a 2-way order leak survives k independent builds with probability 2^-(k-1)", "SOURCE_DATE_EPOCH is fixed by the driver"];
