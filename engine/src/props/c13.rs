//! C13 — The feature-file front end is total and lossless.
use crate::genome::{fnv_str, Gen};
use crate::remote::RemoteCfg;
use crate::run::{CaseReport, Ctx, Part, LAST_PANIC, normalize_sig};
use fea_rs::compile::NopVariationInfo;
use fea_rs::parse::SourceLoadError;
use fea_rs::{DiagnosticSet, GlyphMap, Kind, ParseTree};
use serde_json::json;
use std::collections::{BTreeMap, HashMap};
use std::path::{Path, PathBuf};
use std::sync::{Arc, OnceLock};

pub const LEXICON: &[&str] = &[
    "anchor", "anchorDef", "anon", "anonymous", "conditionset", "variation", "by", "contourpoint", "cursive", "device", "enum", "enumerate",
    "exclude_dflt", "feature", "from", "ignore", "IgnoreBaseGlyphs", "IgnoreLigatures", "IgnoreMarks", "include", "include_dflt", "language",
    "languagesystem", "lookup", "lookupflag", "mark", "MarkAttachmentType", "markClass", "nameid", "NULL", "parameters", "pos", "position",
    "required", "reversesub", "rsub", "RightToLeft", "script", "sub", "substitute", "subtable", "table", "useExtension", "UseMarkFilteringSet",
    "valueRecordDef", "Attach", "GlyphClassDef", "LigatureCaretByDev", "LigatureCaretByIndex", "LigatureCaretByPos", "MarkAttachClass",
    "FontRevision", "Ascender", "CaretOffset", "Descender", "LineGap", "CapHeight", "CodePageRange", "Panose", "TypoAscender", "TypoDescender",
    "TypoLineGap", "UnicodeRange", "Vendor", "winAscent", "winDescent", "XHeight", "sizemenuname", "VertTypoAscender", "VertTypoDescender",
    "VertTypoLineGap", "VertAdvanceY", "VertOriginY", "ElidedFallbackName", "ElidedFallbackNameID", "DesignAxis", "AxisValue", "flag", "location",
    "ElidableAxisValueName", "OlderSiblingFontAttribute", "featureNames", "name", "cvParameters", "Character", "FeatUILabelNameID",
    "FeatUITooltipTextNameID", "SampleTextNameID", "ParamUILabelNameID",
    "GDEF", "head", "hhea", "OS/2", "BASE", "STAT", "vhea", "vmtx", "HorizAxis.BaseTagList", "HorizAxis.BaseScriptList", "size", "aalt", "liga", "kern", "ss01", "cv01", "DFLT", "dflt", "latn", "TRK",
    "a", "b", "c", "d", "f", "i", "f_i", "A", "B", "A.sc", "a.alt", "acutecomb", "gravecomb", "\\1", "\\42", "cid00001", "\\a", "@cls", "@A", "@MARKS", "zero", "one", "space", ".notdef", "a-b", "x.1",
    "0", "1", "-1", "20", "-20", "1.5", "0x1F", "010", "65536", "-32769", "1e3", "0.5d", "100u", "wght=100", "wght=100d", "<", ">", "[", "]", "{", "}", "(", ")", ";", ",", "'", "=", "-", ":", "*", "$", "^", "\"", "#", "\\",
    "\"str\"", "\"un\nterminated", "<anchor 1 2>", "<anchor NULL>", "<1 2 3 4>", "<device 11 -1, 12 2>", "<NULL>", "[a-z]", "[a b c]", "[@cls a]", "[A.sc-B.sc]", "a'", "[a b]'", "lookup l;", "by NULL;",
    "3 1 0x409", "1 0 0", "# comment\n", "\n", "\r\n", "\t", "  ", "\u{feff}", "é", "中", "\u{1F600}", "\u{2028}", "\0",
];

const DEEP_OPENERS: &[(&str, &str)] = &[("[", "]"), ("(", ")"), ("<", ">"), ("{", "}"), ("feature a {", "} a;"), ("lookup l {", "} l;"),
    ("@a = [", "];"), ("sub [", "]"), ("sub a' lookup ", ""), ("<anchor ", ">"), ("table GDEF {", "} GDEF;"), ("pos a <", ">"), ("[a-", "]"), ("ignore sub [", "]';")];

pub struct Corpus { pub files: Vec<(String, String)> }

fn walk(dir: &Path, out: &mut Vec<PathBuf>) {
    let Ok(rd) = std::fs::read_dir(dir) else { return };
    let mut es: Vec<_> = rd.filter_map(|e| e.ok()).map(|e| e.path()).collect();
    es.sort();
    for p in es { if p.is_dir() { walk(&p, out); } else if p.extension().map(|e| e == "fea").unwrap_or(false) { out.push(p); } }
}

pub fn corpus(ctx: &Ctx) -> &'static Corpus {
    static C: OnceLock<Corpus> = OnceLock::new();
    C.get_or_init(|| {
        let mut paths = vec![];
        walk(&ctx.repo.join("fea-rs/test-data"), &mut paths);
        walk(&ctx.repo.join("resources/testdata"), &mut paths);
        let mut files = vec![];
        for p in paths { if let Ok(t) = std::fs::read_to_string(&p) { files.push((p.strip_prefix(&ctx.repo).unwrap_or(&p).display().to_string(), t)); } }
        Corpus { files }
    })
}

fn glyph_map_for(text: &str, mode: usize) -> Option<GlyphMap> {
    match mode {
        0 => None,
        1 => {
            let names: Vec<String> = [".notdef", "space"].iter().map(|s| s.to_string())
                .chain(('a'..='z').map(|c| c.to_string())).chain(('A'..='Z').map(|c| c.to_string()))
                .chain(["f_i", "A.sc", "B.sc", "a.alt", "acutecomb", "gravecomb", "zero", "one", "x.1"].iter().map(|s| s.to_string())).collect();
            GlyphMap::new(names.iter().map(|s| s.as_str())).ok()
        }
        _ => {
            // names harvested from the text so validation goes deep
            let mut seen = std::collections::BTreeSet::new();
            let mut names = vec![".notdef".to_string()];
            for tok in text.split(|c: char| !(c.is_ascii_alphanumeric() || c == '.' || c == '_' || c == '-')) {
                if tok.is_empty() || tok.len() > 40 || tok.starts_with(|c: char| c.is_ascii_digit() || c == '-') { continue; }
                if LEXICON[..90].contains(&tok) { continue; }
                if seen.insert(tok.to_string()) && names.len() < 3000 { names.push(tok.to_string()); }
            }
            GlyphMap::new(names.iter().map(|s| s.as_str())).ok()
        }
    }
}

fn on_boundary(s: &str, i: usize) -> bool { i <= s.len() && s.is_char_boundary(i) }

fn check_diags(rep: &mut CaseReport, tree: &ParseTree, diags: &DiagnosticSet, what: &str) {
    for d in diags.diagnostics() {
        let Some(src) = tree.get_source(d.message.file) else { rep.fail(format!("{what}-diagnostic-file-unresolvable"), format!("{:?}", d.text())); continue; };
        let text = src.text();
        let r = d.span();
        if r.start > r.end || r.end > text.len() { rep.fail(format!("{what}-diagnostic-span-out-of-range"), format!("{r:?} in source of {} bytes: {}", text.len(), d.text())); continue; }
        if !on_boundary(text, r.start) || !on_boundary(text, r.end) { rep.fail(format!("{what}-diagnostic-span-not-on-char-boundary"), format!("{r:?}: {}", d.text())); continue; }
        let ok = std::panic::catch_unwind(std::panic::AssertUnwindSafe(|| { let _ = tree.format_diagnostic(d, false); let _ = tree.format_diagnostic(d, true); }));
        if ok.is_err() { let m = LAST_PANIC.with(|p| p.borrow().clone()); rep.fail(format!("{what}-diagnostic-format-panics"), format!("{r:?} {} :: {m}", d.text())); }
    }
    let ok = std::panic::catch_unwind(std::panic::AssertUnwindSafe(|| { let _ = format!("{}", diags.display()); }));
    if ok.is_err() { let m = LAST_PANIC.with(|p| p.borrow().clone()); rep.fail(format!("{what}-diagnostic-display-panics"), m); }
}

/// signature of a panic: innermost function of the code under test (no line number) + message with data stripped
fn panic_site() -> (String, String) {
    let m = LAST_PANIC.with(|p| p.borrow().clone());
    let func = crate::run::LAST_PANIC_FN.with(|p| p.borrow().clone());
    let (msg, loc) = m.rsplit_once(" @ ").unwrap_or((m.as_str(), ""));
    let file = loc.rsplit_once(':').map(|(f, _)| f).unwrap_or(loc);
    let file = file.rsplit_once("/src/").map(|(_, f)| f).unwrap_or(file);
    let short: String = msg.split(['`', '\'', '"', ':']).next().unwrap_or("").chars().take(40).collect();
    let site = if func.is_empty() { file.to_string() } else { func };
    (format!("{}:{}", site, normalize_sig(short.trim())), format!("{} [in {}]", m.chars().take(400).collect::<String>(), file))
}

/// Oracle over a set of in-memory files; `expected` is the text the tree must carry (None = only robustness)
pub fn check_sources(rep: &mut CaseReport, files: &BTreeMap<String, String>, root: &str, gm: Option<&GlyphMap>, expected: Option<&str>, expect_errors: bool) -> usize {
    let shared: Arc<HashMap<PathBuf, Arc<str>>> = Arc::new(files.iter().map(|(k, v)| (PathBuf::from(k), Arc::from(v.as_str()))).collect());
    let fs = shared.clone();
    let resolver = move |p: &Path| -> Result<Arc<str>, SourceLoadError> {
        fs.get(p).cloned().ok_or_else(|| SourceLoadError::new(p.to_path_buf(), "no such in-memory file"))
    };
    let parsed = std::panic::catch_unwind(std::panic::AssertUnwindSafe(|| fea_rs::parse::parse_root(PathBuf::from(root), gm, Box::new(resolver))));
    let (tree, diags) = match parsed {
        Err(_) => { let (site, m) = panic_site(); rep.fail(format!("parse-panic:{}", site), m); return 0; }
        Ok(Err(e)) => { rep.fail("root-source-not-loaded", format!("{e}")); return 0; }
        Ok(Ok(x)) => x,
    };
    let mut text = String::new();
    let mut ntok = 0;
    for t in tree.root().iter_tokens() {
        text.push_str(t.text.as_str());
        if !matches!(t.kind, Kind::Whitespace | Kind::Comment) { ntok += 1; }
    }
    if let Some(exp) = expected {
        if text != exp {
            let pos = text.bytes().zip(exp.bytes()).position(|(a, b)| a != b).unwrap_or(text.len().min(exp.len()));
            rep.fail("tree-text-differs-from-input", format!("first difference at byte {pos}: tree {} bytes, expected {} bytes; tree[..]={:?} expected[..]={:?}",
                text.len(), exp.len(), text.get(pos.saturating_sub(20)..(pos + 20).min(text.len())), exp.get(pos.saturating_sub(20)..(pos + 20).min(exp.len()))));
        }
    }
    if tree.root().text_len() != text.len() { rep.fail("root-text-len-inconsistent", format!("{} vs {}", tree.root().text_len(), text.len())); }
    check_diags(rep, &tree, &diags, "parse");
    if expect_errors && !diags.has_errors() { rep.fail("bad-include-graph-not-reported", "cyclic / too deep / missing include produced no error diagnostic"); }
    if !diags.has_errors() {
        if let Some(gm) = gm {
            let v = std::panic::catch_unwind(std::panic::AssertUnwindSafe(|| fea_rs::compile::validate(&tree, gm, None::<&NopVariationInfo>)));
            match v {
                Err(_) => { let (site, m) = panic_site(); rep.fail(format!("validate-panic:{}", site), m); }
                Ok(vd) => { check_diags(rep, &tree, &vd, "validate"); rep.class(if vd.has_errors() { "validate-rejects" } else { "validate-accepts" }); }
            }
        }
    } else { rep.class("parse-errors"); }
    ntok
}

fn soup(g: &mut Gen, n: usize) -> String {
    let mut s = String::new();
    for _ in 0..n {
        s.push_str(*g.pick(LEXICON));
        match g.below(6) { 0 => {}, 1 => s.push('\n'), 2 => s.push_str("  "), _ => s.push(' ') }
    }
    s
}

const ALPHABET: &str = " \n\t\r;{}[]()<>@\\#'\"-,=.:*_/0123456789abcfiklnopstuABCXYZé中\u{1F600}\u{feff}\u{2028}\u{301}\0\u{7f}$^&|~`%!?+";

pub fn gen_text(g: &mut Gen) -> (String, &'static str) {
    match g.weighted(&[3, 5, 2, 2, 2]) {
        4 => { // name-type strings: escapes of varying length next to multi-byte characters, both platforms
            const BITS: &[&str] = &["a", "Ren", " ", "\\", "\\00e9", "\\e9", "\\0", "\\00", "\\00e", "\\e", "é", "École", "中", "\u{1F600}", "caf", "\\00c9cole"];
            let n = 1 + g.below(5);
            let mut s = String::from("languagesystem DFLT dflt;\n");
            let mut body = String::new();
            for _ in 0..n {
                let len = 1 + g.below(5);
                let text: String = (0..len).map(|_| *g.pick(BITS)).collect();
                let plat = match g.below(4) { 0 => "", 1 => "3 ", 2 => "1 ", _ => "3 1 0x409 " };
                match g.below(4) {
                    0 => { body.push_str(&format!("table name {{\n  nameid {} {plat}\"{text}\";\n}} name;\n", 9 + g.below(3))); }
                    1 => { body.push_str(&format!("feature ss0{} {{\n  featureNames {{ name {plat}\"{text}\"; }};\n  sub a by b;\n}} ss0{};\n", 1 + n % 9, 1 + n % 9)); }
                    2 => { body.push_str(&format!("feature size {{\n  parameters 10.0 3 80 139;\n  sizemenuname {plat}\"{text}\";\n}} size;\n")); }
                    _ => { body.push_str(&format!("table STAT {{\n  ElidedFallbackName {{ name {plat}\"{text}\"; }};\n}} STAT;\n")); }
                }
            }
            s.push_str(&body);
            (s, "name-strings")
        }
        0 => { // arbitrary unicode
            let n = g.below(200);
            let chars: Vec<char> = ALPHABET.chars().collect();
            ((0..n).map(|_| *g.pick(&chars)).collect(), "unicode")
        }
        1 => { let n = 1 + g.below(60); (soup(g, n), "soup") }
        2 => { // plausible statements made of soup inside a feature block
            let n = 1 + g.below(8);
            let mut s = String::from("languagesystem DFLT dflt;\n@cls = [a b c];\nfeature liga {\n");
            for _ in 0..n { let k = 1 + g.below(6); s.push_str("  "); s.push_str(["sub", "pos", "ignore sub", "lookupflag", "script", "language", "lookup"][g.below(7)]); s.push(' '); s.push_str(&soup(g, k)); s.push_str(";\n"); }
            s.push_str("} liga;\n"); (s, "statements")
        }
        _ => { // deep nesting
            let (open, close) = *g.pick(DEEP_OPENERS);
            let exp = g.below(15); // 1 .. 16384
            let n = (1usize << exp) + g.below(1 << exp);
            let mut s = String::with_capacity(n * (open.len() + close.len() + 1));
            let pre = if g.chance(1, 2) { "feature f {\n sub " } else { "" };
            s.push_str(pre);
            for _ in 0..n { s.push_str(open); if g.chance(1, 8) { s.push(' '); } }
            if g.chance(2, 3) { s.push_str(" a "); for _ in 0..n { s.push_str(close); } }
            (s, "deep")
        }
    }
}

pub fn check_text(ctx: &Ctx, genome: &[u16]) -> CaseReport {
    let mut g = Gen::new(genome);
    let mut rep = CaseReport::default();
    let gm_mode = g.below(3);
    let (text, class) = gen_text(&mut g);
    let gm = glyph_map_for(&text, gm_mode);
    let files: BTreeMap<String, String> = [("root.fea".to_string(), text.clone())].into_iter().collect();
    let ntok = if ctx.dry { 0 } else { check_sources(&mut rep, &files, "root.fea", gm.as_ref(), Some(&text), false) };
    rep.evals = 1;
    rep.nontrivial = ntok >= 3;
    rep.key = fnv_str(&text) ^ gm_mode as u64;
    rep.class(class); rep.class(["no-glyph-map", "fixed-glyph-map", "harvested-glyph-map"][gm_mode]);
    rep.sample = Some(json!({"class": class, "glyph_map": gm_mode, "text": text.chars().take(160).collect::<String>(), "len": text.len()}));
    if !rep.failures.is_empty() || ctx.dry { rep.artifacts.push(("root.fea".into(), text.into_bytes())); }
    rep
}

fn char_floor(s: &str, mut i: usize) -> usize { i = i.min(s.len()); while !s.is_char_boundary(i) { i -= 1; } i }

pub fn mutate(g: &mut Gen, base: &str, other: &str) -> (String, Vec<String>) {
    let mut t = base.to_string();
    let mut log = vec![];
    let n = g.below(5);
    for _ in 0..n {
        let mut mg = g.fork(6);
        if t.is_empty() { break; }
        let a = char_floor(&t, (mg.word() as usize * t.len()) >> 16);
        let len = [1usize, 1, 2, 5, 20, 200, 2000][mg.below(7)];
        let b = char_floor(&t, a + len);
        match mg.below(9) {
            0 => { t.replace_range(a..b, ""); log.push(format!("delete {a}..{b}")); }
            1 => { let seg = t[a..b].to_string(); t.insert_str(b, &seg); log.push(format!("duplicate {a}..{b}")); }
            2 => { let tok = *mg.pick(LEXICON); t.insert_str(a, tok); t.insert(a, ' '); log.push(format!("insert {tok:?} at {a}")); }
            3 => { let chars: Vec<char> = ALPHABET.chars().collect(); let c = *mg.pick(&chars); let e = char_floor(&t, a + 1).max(a); let e = if e == a { t[a..].chars().next().map(|c| a + c.len_utf8()).unwrap_or(a) } else { e }; t.replace_range(a..e, &c.to_string()); log.push(format!("replace char at {a} by {c:?}")); }
            4 => { t.truncate(a); log.push(format!("truncate at {a}")); }
            5 => { // swap two whitespace separated tokens near a
                let rest: Vec<(usize, &str)> = t[a..].split_whitespace().take(3).map(|w| (w.as_ptr() as usize - t.as_ptr() as usize, w)).collect();
                if rest.len() == 3 { let (p1, w1) = rest[1]; let (p2, w2) = rest[2]; let (w1, w2) = (w1.to_string(), w2.to_string());
                    let mut nt = String::new(); nt.push_str(&t[..p1]); nt.push_str(&w2); nt.push_str(&t[p1 + w1.len()..p2]); nt.push_str(&w1); nt.push_str(&t[p2 + w2.len()..]); t = nt; log.push(format!("swap tokens at {p1},{p2}")); }
            }
            6 => { if !other.is_empty() { let oa = char_floor(other, (mg.word() as usize * other.len()) >> 16); let ob = char_floor(other, oa + len * 4); t.insert_str(a, &other[oa..ob]); log.push(format!("splice {} bytes of another file at {a}", ob - oa)); } }
            7 => { let (o, _) = *mg.pick(DEEP_OPENERS); let k = 1 << mg.below(12); t.insert_str(a, &o.repeat(k)); log.push(format!("insert {k} x {o:?} at {a}")); }
            _ => { t.insert_str(a, "\n"); log.push(format!("newline at {a}")); }
        }
    }
    (t, log)
}

pub fn check_corpus(ctx: &Ctx, genome: &[u16]) -> CaseReport {
    let mut g = Gen::new(genome);
    let mut rep = CaseReport::default();
    let c = corpus(ctx);
    if c.files.is_empty() { rep.discard = true; return rep; }
    let small: Vec<usize> = (0..c.files.len()).filter(|i| ctx.tier == crate::run::Tier::Thorough || c.files[*i].1.len() < 60_000).collect();
    let fi = small[g.below(small.len())];
    let oi = g.below(c.files.len());
    let gm_mode = g.below(3);
    let (text, log) = mutate(&mut g, &c.files[fi].1, &c.files[oi].1);
    let gm = glyph_map_for(&text, gm_mode);
    let files: BTreeMap<String, String> = [("root.fea".to_string(), text.clone())].into_iter().collect();
    // includes in corpus files point at files we do not provide: they stay in place, text must be unchanged
    let ntok = if ctx.dry { 0 } else { check_sources(&mut rep, &files, "root.fea", gm.as_ref(), Some(&text), false) };
    rep.evals = 1;
    rep.nontrivial = ntok >= 3 && !log.is_empty();
    rep.key = fnv_str(&text) ^ gm_mode as u64;
    rep.class(format!("mutations={}", log.len())); rep.class(["no-glyph-map", "fixed-glyph-map", "harvested-glyph-map"][gm_mode]);
    rep.sample = Some(json!({"file": c.files[fi].0, "glyph_map": gm_mode, "mutations": log, "len": text.len()}));
    if !rep.failures.is_empty() || ctx.dry { rep.artifacts.push(("root.fea".into(), text.into_bytes())); }
    rep
}

// ---------------------------------------------------------------- include graphs
#[derive(Clone, Debug)]
enum Piece { Text(String), Include(usize, bool /* inside a feature block */) }

/// valid at the top level of a file
const ROOT_SNIPPETS: &[&str] = &["languagesystem DFLT dflt;\n", "@c = [a b c];\n", "# a comment\n", "\n", "lookup l1 { sub a by b; } l1;\n",
    "feature kern { pos a b -20; } kern;\n", "markClass acutecomb <anchor 1 2> @M;\n", "table head { FontRevision 1.1; } head;\n", "   "];
/// valid as feature-block items
const BLOCK_SNIPPETS: &[&str] = &["sub a by b;\n", "pos a b -20;\n", "# in block\n", "\n", "  ", "sub f i by f_i;\n", "lookup l2 { sub a by b; } l2;\n"];
const BAD_SNIPPETS: &[&str] = &["garbage ;;; {\n", "languagesystem DFLT dflt;\n", "sub a by b;\n", "}\n", "include(\n"];

fn render_piece(p: &Piece, name: &dyn Fn(usize) -> String, out: &mut String) {
    match p {
        Piece::Text(t) => out.push_str(t),
        Piece::Include(t, true) => out.push_str(&format!("feature liga {{ include({}); }} liga;\n", name(*t))),
        Piece::Include(t, false) => out.push_str(&format!("include({});\n", name(*t))),
    }
}

pub fn check_includes(ctx: &Ctx, genome: &[u16]) -> CaseReport {
    let mut g = Gen::new(genome);
    let mut rep = CaseReport::default();
    // exact: dag / missing-target with scope-valid content; robustness: cycle, self-loop, deep chain, mixed scopes / bad content
    let shape = g.weighted(&[4, 2, 2, 2, 2, 2, 2]);
    let shape_name = ["dag", "missing-target", "cycle", "self-loop", "deep-chain", "mixed-scope-or-bad-content", "deep-chain-shortcut-cycle"][shape];
    if shape == 6 {
        // f0 -> f1 -> ... -> fL -> X ; f0 also includes X directly ; X includes itself (or the root)
        let l = 36 + g.below(24);
        let x = l + 1;
        let back_to_root = g.chance(1, 3);
        let shortcut_first = g.chance(1, 2);
        let mut texts: BTreeMap<String, String> = BTreeMap::new();
        let name = |i: usize| format!("f{i}.fea");
        for i in 0..=l {
            let mut t = String::from("# chain\n");
            if i == 0 && shortcut_first { t.push_str(&format!("include({});\n", name(x))); }
            t.push_str(&format!("include({});\n", name(if i == l { x } else { i + 1 })));
            if i == 0 && !shortcut_first { t.push_str(&format!("include({});\n", name(x))); }
            texts.insert(name(i), t);
        }
        texts.insert(name(x), format!("languagesystem DFLT dflt;\ninclude({});\n", name(if back_to_root { 0 } else { x })));
        let gm = glyph_map_for("", g.below(2));
        let ntok = if ctx.dry { 0 } else { check_sources(&mut rep, &texts, "f0.fea", gm.as_ref(), None, true) };
        rep.evals = 1;
        rep.nontrivial = ntok >= 3;
        rep.key = fnv_str(&format!("{texts:?}"));
        rep.class(shape_name); rep.class("robustness-only"); rep.class(format!("chain-length={}", if l < 44 { "36-43" } else if l < 52 { "44-51" } else { "52-59" }));
        rep.sample = Some(json!({"shape": shape_name, "chain_length": l, "shortcut_first": shortcut_first, "cycle_back_to_root": back_to_root}));
        if !rep.failures.is_empty() || ctx.dry { for (k, v) in &texts { rep.artifacts.push((k.clone(), v.clone().into_bytes())); } }
        return rep;
    }
    let gm_mode = g.below(2);
    let nfiles = match shape { 4 => 45 + g.below(30), _ => 1 + g.below(6) };
    // roles: file 0 is root scope; in exact shapes each other file is either root-scope or block-scope
    let roles: Vec<bool> = (0..nfiles).map(|i| i > 0 && g.chance(1, 3)).collect(); // true = block file
    let mut files: Vec<Vec<Piece>> = vec![];
    let exact_shape = shape <= 1;
    for i in 0..nfiles {
        let mut fg = g.fork(16);
        let mut pieces = vec![];
        let block_file = exact_shape && roles[i];
        let np = 1 + fg.below(4);
        for _ in 0..np {
            let snip = if shape == 5 && fg.chance(1, 3) { *fg.pick(BAD_SNIPPETS) } else if block_file { *fg.pick(BLOCK_SNIPPETS) } else { *fg.pick(ROOT_SNIPPETS) };
            pieces.push(Piece::Text(snip.to_string()));
            if shape == 4 || block_file || nfiles < 2 || !fg.chance(1, 2) { continue; }
            let in_block = fg.chance(1, 3);
            let tgt = if exact_shape {
                // forward edges only, and the target's role must fit the including scope
                let cands: Vec<usize> = (i + 1..nfiles).filter(|t| roles[*t] == in_block).collect();
                if cands.is_empty() { continue; }
                cands[fg.below(cands.len())]
            } else { fg.below(nfiles) };
            pieces.push(Piece::Include(tgt, in_block));
        }
        if shape == 4 && i + 1 < nfiles { pieces.push(Piece::Include(i + 1, false)); }
        if shape == 3 && i == 0 { pieces.push(Piece::Include(0, false)); }
        files.push(pieces);
    }
    if shape == 2 { // guarantee a cycle through the root
        let last = nfiles - 1;
        let back = g.below(nfiles);
        files[last].push(Piece::Include(back, false));
        if last > 0 { files[0].push(Piece::Include(last, false)); }
    }
    let missing_target = nfiles + 7;
    if shape == 1 { let cands: Vec<usize> = (0..nfiles).filter(|i| !roles[*i]).collect(); let k = cands[g.below(cands.len())]; let inb = g.chance(1, 3); files[k].push(Piece::Include(missing_target, inb)); }
    let name = |i: usize| format!("f{i}.fea");
    let texts: BTreeMap<String, String> = files.iter().enumerate().map(|(i, ps)| { let mut s = String::new(); for p in ps { render_piece(p, &name, &mut s); } (name(i), s) }).collect();

    // graph facts from the model (not from fea-rs)
    fn walk(files: &Vec<Vec<Piece>>, i: usize, stack: &mut Vec<usize>, cyc: &mut bool, missing: &mut bool, maxd: &mut usize) {
        if stack.len() > 300 { return; }
        *maxd = (*maxd).max(stack.len());
        stack.push(i);
        for p in &files[i] { if let Piece::Include(t, _) = p {
            if *t >= files.len() { *missing = true; } else if stack.contains(t) { *cyc = true; } else { walk(files, *t, stack, cyc, missing, maxd); }
        } }
        stack.pop();
    }
    let (mut cyc, mut missing, mut maxd) = (false, false, 0);
    walk(&files, 0, &mut vec![], &mut cyc, &mut missing, &mut maxd);
    fn expand(files: &Vec<Vec<Piece>>, i: usize, name: &dyn Fn(usize) -> String, out: &mut String) {
        for p in &files[i] { match p {
            Piece::Include(t, in_block) if *t < files.len() => {
                if *in_block { out.push_str("feature liga { "); expand(files, *t, name, out); out.push_str(" } liga;\n"); }
                else { expand(files, *t, name, out); out.push('\n'); }
            }
            other => render_piece(other, name, out),
        } }
    }
    let expected = if exact_shape && !cyc && maxd < 40 { let mut s = String::new(); expand(&files, 0, &name, &mut s); Some(s) } else { None };
    let gm = glyph_map_for("", gm_mode);
    // a cycle, a missing target or a chain deeper than the documented limit (50), reachable from the root, must be reported
    let expect_errors = cyc || missing || maxd >= 60;
    let ntok = if ctx.dry { 0 } else { check_sources(&mut rep, &texts, "f0.fea", gm.as_ref(), expected.as_deref(), expect_errors) };
    rep.evals = 1;
    rep.nontrivial = nfiles >= 2 && ntok >= 3;
    rep.key = fnv_str(&format!("{texts:?}"));
    rep.class(shape_name);
    rep.class(if expected.is_some() { "expansion-checked" } else { "robustness-only" });
    if cyc { rep.class("has-cycle"); } if missing { rep.class("has-missing-target"); } if maxd >= 60 { rep.class("too-deep"); }
    let root_head: String = texts["f0.fea"].chars().take(200).collect();
    rep.sample = Some(json!({"shape": shape_name, "files": nfiles, "root": root_head}));
    if !rep.failures.is_empty() || ctx.dry { for (k, v) in &texts { rep.artifacts.push((k.clone(), v.clone().into_bytes())); } }
    rep
}

/// A stored literal case: {"files": {name: text}, "root": name, "glyph_map": 0|1|2, "expected_text": optional}
/// (used for regression inputs of repaired defects; independent of the generators)
pub fn check_literal(_ctx: &Ctx, v: &serde_json::Value) -> CaseReport {
    let mut rep = CaseReport::default();
    let files: BTreeMap<String, String> = v["files"].as_object().map(|o| o.iter().map(|(k, t)| (k.clone(), t.as_str().unwrap_or("").to_string())).collect()).unwrap_or_default();
    let root = v["root"].as_str().unwrap_or("root.fea").to_string();
    let gm_mode = v["glyph_map"].as_u64().unwrap_or(0) as usize;
    let all: String = files.values().cloned().collect::<Vec<_>>().join("\n");
    let gm = glyph_map_for(&all, gm_mode);
    let expected = match v.get("expected_text").and_then(|e| e.as_str()) { Some(e) => Some(e.to_string()), None if files.len() == 1 => files.get(&root).cloned(), None => None };
    let expect_errors = v["expect_errors"].as_bool().unwrap_or(false);
    check_sources(&mut rep, &files, &root, gm.as_ref(), expected.as_deref(), expect_errors);
    rep.evals = 1;
    rep
}

const REMOTE: RemoteCfg = RemoteCfg { stack_bytes: 2 << 20, timeout_s: 120, mem_bytes: 3 << 30 };

pub fn parts() -> Vec<Part> {
    vec![
        Part { name: "text", genome_len: 400, cases_quick: 16_000, cases_thorough: 2_000_000, threads: 16, max_shrink_iters: 3000, check: Box::new(check_text), remote: Some(REMOTE) },
        Part { name: "corpus", genome_len: 64, cases_quick: 6_000, cases_thorough: 600_000, threads: 16, max_shrink_iters: 600, check: Box::new(check_corpus), remote: Some(REMOTE) },
        Part { name: "includes", genome_len: 1400, cases_quick: 8_000, cases_thorough: 400_000, threads: 16, max_shrink_iters: 2000, check: Box::new(check_includes), remote: Some(REMOTE) },
    ]
}

pub const RULE: &str = "text: arbitrary unicode / FEA token soup / soup statements in a feature block / deep nesting (2^0..2^15 openers); corpus: one of the repo's .fea files under 0-4 char-boundary mutations (delete, duplicate, insert token, replace char, truncate, swap tokens, splice from another file, insert opener run); includes: 1-6 (45-75 for chains) in-memory files with dag / cycle / self-loop / deep-chain / missing-target include edges, at top level or inside feature blocks; each with no / fixed / harvested glyph map. non-trivial = input lexes to >=3 non-trivia tokens (and was mutated, for corpus; >=2 files for includes); distinct = hash of the final text(s)";
pub const ASSUMPTIONS: &[&str] = &["each case runs in a child process on a thread with a 2 MiB stack (what a rayon worker running the feature job has), 120 s watchdog retried at 480 s", "include expansion is compared only where the reference expansion is fully determined (acyclic, depth < 40, missing targets left in place); cyclic / >60 deep graphs are checked for termination, an error diagnostic and diagnostic validity"];
