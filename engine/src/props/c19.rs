//! C19 — Values that do not fit the binary format are rejected (or handled by a shape-preserving
//! fallback), never wrapped or clamped, and optimised and debug builds agree.
//! Boundary generator over one or two numeric fields of a small source; both `fontc` binaries
//! (dev profile with overflow checks, release profile without) are run as processes.
use crate::genome::{fnv_str, Gen};
use crate::ot::layout::{Layout, Tbl};
use crate::ot::outline::ot_round;
use crate::ot::Font;
use crate::props::c03::gid_map;
use crate::props::c15::{fontc_bin, run_fontc, Outcome};
use crate::run::{CaseReport, Ctx, Part};
use crate::synth::build::Scratch;
use crate::synth::model::*;
use crate::synth::ufo;
use read_fonts::TableProvider;
use serde_json::json;
use std::collections::BTreeMap;

#[derive(Clone, Copy, Debug, PartialEq)]
pub enum Field { PointX, PointY, PointGap, ContourGap, CompOffsetX, CompOffsetY, CompScale, NestedScale, MixedScale, Advance, AdvanceHeight, Kern, AnchorX, AnchorY, Ascender, TypoDescender }
const FIELDS: &[Field] = &[Field::PointX, Field::PointY, Field::PointGap, Field::ContourGap, Field::CompOffsetX, Field::CompOffsetY, Field::CompScale, Field::NestedScale, Field::MixedScale, Field::NestedScale, Field::MixedScale, Field::Advance, Field::AdvanceHeight, Field::Kern, Field::AnchorX, Field::AnchorY, Field::Ascender, Field::TypoDescender];
const I16_VALUES: &[f64] = &[32766.0, 32767.0, 32768.0, 40000.0, 65535.0, 65536.0, 70000.0, -32767.0, -32768.0, -32769.0, -40000.0, -70000.0, 32767.4, 32767.5, -32768.5, 100000.0];
const U16_VALUES: &[f64] = &[65534.0, 65535.0, 65536.0, 70000.0, 131072.0, 65535.4, 65535.5, -1.0, -600.0, 40000.0];
const SCALES: &[f64] = &[1.5, 1.99993896484375, 2.0, 2.00006103515625, -2.0, -2.00006103515625, 2.5, -2.5, 3.0, 100.0];
const GAPS: &[f64] = &[32767.0, 32768.0, 40000.0, 65534.0];
// two contours, each one unit wide, whose left edges are this far apart: every step from one contour to the next is within 1 of it
const CONTOUR_GAPS: &[f64] = &[32760.0, 32766.0, 32769.0, 40000.0, 65532.0];

fn representable(field: Field, v: f64) -> bool {
    let r = ot_round(v);
    match field {
        Field::Advance | Field::AdvanceHeight => (0.0..=65535.0).contains(&r),
        Field::CompScale | Field::NestedScale | Field::MixedScale => true, // out-of-range scales have a shape-preserving fallback (decomposition)
        // both end points are in range; their difference is not a stored field in the glyf format's long
        // form... the flag/short-vector encoding stores differences in 16 bits
        Field::PointGap => r <= 32767.0,
        Field::ContourGap => r + 1.0 <= 32767.0,
        _ => (-32768.0..=32767.0).contains(&r),
    }
}

fn square(x0: f64, y0: f64, w: f64) -> Contour {
    Contour { pts: vec![Pt { x: x0, y: y0, typ: PtType::Line }, Pt { x: x0 + w, y: y0, typ: PtType::Line }, Pt { x: x0 + w, y: y0 + w, typ: PtType::Line }, Pt { x: x0, y: y0 + w, typ: PtType::Line }] }
}

pub struct Case { pub font: SynthFont, pub edits: Vec<(Field, f64, usize)>, pub prefer_simple_off: bool }

pub fn make_case(g: &mut Gen) -> Case {
    let variable = g.chance(1, 2);
    let vertical = g.chance(1, 3);
    let axes = if variable { vec![Axis { name: "Weight".into(), tag: "wght".into(), d_default: 400.0, d_below: 0.0, d_above: 300.0, map: None, hidden: false, label: None, other_labels: vec![] }] } else { vec![] };
    let n_src = if variable { 2 } else { 1 };
    let mut sources = vec![];
    for i in 0..n_src {
        let mut info = FontInfo { family: Some("Edge".into()), style: Some(if i == 0 { "Regular" } else { "Bold" }.into()), ascender: Some(800.0), descender: Some(-200.0), x_height: Some(500.0), cap_height: Some(700.0), version_major: Some(1), version_minor: Some(0), ..Default::default() };
        info.metrics.insert("openTypeOS2TypoDescender", -200.0);
        if vertical { info.metrics.insert("openTypeVheaVertTypoAscender", 500.0); info.metrics.insert("openTypeVheaVertTypoDescender", -500.0); info.metrics.insert("openTypeVheaVertTypoLineGap", 0.0); }
        sources.push(Source { name: format!("master_{i}"), ufo: format!("M{i}.ufo"), layer: None, norm: if variable { vec![i as f64] } else { vec![] }, info, kerning: None });
    }
    let mk = |name: &str, cp: u32, cat: &'static str| Glyph { name: name.into(), codepoints: if cp != 0 { vec![cp] } else { vec![] }, export: true, category: Some(cat), kind: OutlineKind::Line, sources: BTreeMap::new() };
    let (mut a, mut b, mut c, mut m) = (mk("A", 0x41, "base"), mk("B", 0x42, "base"), mk("C", 0x43, "base"), mk("acutecomb", 0x301, "mark"));
    // a non-export part used through a second level of nesting, and a glyph with an outline and a component
    let (mut part, mut gd, mut ge) = (mk("_part", 0, "base"), mk("D", 0x44, "base"), mk("E", 0x45, "base"));
    part.export = false;
    for si in 0..n_src {
        let d = si as f64 * 10.0;
        let d0 = d;
        let h = if vertical { Some(1000.0) } else { None };
        a.sources.insert(si, GlyphSource { advance: 600.0 + d, height: h, contours: vec![square(0.0, 0.0, 100.0 + d)], comps: vec![], anchors: vec![("top".into(), 50.0 + d, 700.0)] });
        b.sources.insert(si, GlyphSource { advance: 500.0, height: h, contours: vec![square(10.0, 10.0, 50.0)], comps: vec![], anchors: vec![] });
        c.sources.insert(si, GlyphSource { advance: 700.0, height: h, contours: vec![], comps: vec![Comp { base: "A".into(), xf: [1.0, 0.0, 0.0, 1.0, 20.0 + d, 30.0] }], anchors: vec![] });
        m.sources.insert(si, GlyphSource { advance: 0.0, height: h, contours: vec![square(-60.0, 600.0, 40.0)], comps: vec![], anchors: vec![("_top".into(), -40.0, 580.0)] });
        part.sources.insert(si, GlyphSource { advance: 600.0, height: h, contours: vec![], comps: vec![Comp { base: "A".into(), xf: [1.0, 0.0, 0.0, 1.0, 10.0, 0.0] }], anchors: vec![] });
        gd.sources.insert(si, GlyphSource { advance: 650.0, height: h, contours: vec![], comps: vec![Comp { base: "_part".into(), xf: [1.0, 0.0, 0.0, 1.0, 5.0 + d0, 7.0] }], anchors: vec![] });
        ge.sources.insert(si, GlyphSource { advance: 650.0, height: h, contours: vec![square(300.0, 0.0, 40.0)], comps: vec![Comp { base: "A".into(), xf: [1.0, 0.0, 0.0, 1.0, 0.0, 0.0] }], anchors: vec![] });
        let mut k = Kerning::default(); k.pairs.insert(("A".into(), "B".into()), -50.0 - d);
        sources[si].kerning = Some(k);
    }
    let mut font = SynthFont { upem: 1000, axes, sources, glyphs: vec![a, b, c, m, part, gd, ge], glyph_order: None, skip_export: vec!["_part".into()], ps_names: None, categories_explicit: true, features: None, instances: vec![], rules: vec![], rules_processing_last: false, lib_filters: vec![] };
    // a sparse layer source half way along the axis, for the two glyphs with outlines of their own: a location the
    // font-wide masters do not include
    let layer = { let c = g.chance(1, 2); variable && c };
    if layer {
        font.sources.push(Source { name: "layer_2".into(), ufo: "M0.ufo".into(), layer: Some("L2".into()), norm: vec![0.5], info: Default::default(), kerning: None });
        for n in ["A", "B"] {
            let gi = font.glyphs.iter().position(|x| x.name == n).unwrap();
            let (s0, s1) = (font.glyphs[gi].sources[&0].clone(), font.glyphs[gi].sources[&1].clone());
            let mut mid = s0.clone();
            mid.advance = (s0.advance + s1.advance) / 2.0;
            for (c, (c0, c1)) in mid.contours.iter_mut().zip(s0.contours.iter().zip(&s1.contours)) { for (p, (p0, p1)) in c.pts.iter_mut().zip(c0.pts.iter().zip(&c1.pts)) { p.x = (p0.x + p1.x) / 2.0; p.y = (p0.y + p1.y) / 2.0; } }
            mid.anchors.clear();
            font.glyphs[gi].sources.insert(2, mid);
        }
    }
    let n_edits = 1 + g.weighted(&[4, 1]);
    let mut edits: Vec<(Field, f64, usize)> = vec![];
    for _ in 0..n_edits {
        let field = *g.pick(FIELDS);
        let si = if variable && g.chance(1, 3) { 1 } else { 0 };
        let in_layer = g.chance(1, 2);
        let si = if layer && in_layer && matches!(field, Field::PointX | Field::PointY | Field::PointGap | Field::ContourGap | Field::Advance) { 2 } else { si };
        let v = match field { Field::ContourGap => *g.pick(CONTOUR_GAPS), Field::Advance | Field::AdvanceHeight => *g.pick(U16_VALUES), Field::CompScale | Field::MixedScale => *g.pick(SCALES), Field::NestedScale => *g.pick(&[1.5, -1.5, 1.25, 2.0, 1.75, -2.0]), Field::PointGap => *g.pick(GAPS), _ => *g.pick(I16_VALUES) };
        if field == Field::AdvanceHeight && !vertical { continue; }
        if edits.iter().any(|(f, _, _)| *f == field) { continue; }
        // outline and component fields all show in the resolved outlines of the composites of A: one of them per case,
        // so that each read-back has a single cause
        let shape = |f: Field| matches!(f, Field::PointX | Field::PointY | Field::CompOffsetX | Field::CompOffsetY | Field::CompScale | Field::NestedScale | Field::MixedScale);
        if shape(field) && edits.iter().any(|(f, _, _)| shape(*f)) { continue; }
        let on_b = |f: Field| matches!(f, Field::PointGap | Field::ContourGap);
        if on_b(field) && edits.iter().any(|(f, _, _)| on_b(*f)) { continue; }
        // the component scale must be the same in every master (a varying 2x2 is decomposed for another reason)
        let targets: Vec<usize> = if matches!(field, Field::CompScale | Field::NestedScale | Field::MixedScale) { (0..n_src).collect() } else { vec![si] };
        for t in targets { apply(&mut font, field, v, t); }
        edits.push((field, v, si));
    }
    let prefer_simple_off = g.chance(1, 3);
    Case { font, edits, prefer_simple_off }
}

fn apply(f: &mut SynthFont, field: Field, v: f64, si: usize) {
    let gl = |f: &mut SynthFont, n: &str| -> usize { f.glyphs.iter().position(|g| g.name == n).unwrap() };
    match field {
        Field::PointX => { let i = gl(f, "A"); f.glyphs[i].sources.get_mut(&si).unwrap().contours[0].pts[2].x = v; }
        Field::PointY => { let i = gl(f, "A"); f.glyphs[i].sources.get_mut(&si).unwrap().contours[0].pts[2].y = v; }
        Field::PointGap => { let i = gl(f, "B"); let c = &mut f.glyphs[i].sources.get_mut(&si).unwrap().contours[0]; let lo = -(v / 2.0).floor(); c.pts[0].x = lo; c.pts[3].x = lo; c.pts[1].x = lo + v; c.pts[2].x = lo + v; }
        // every master needs the second contour; only `si` has it far away
        Field::ContourGap => { let i = gl(f, "B"); let lo = -(v / 2.0).floor(); let keys: Vec<usize> = f.glyphs[i].sources.keys().copied().collect(); for k in keys { let (x0, x1) = if k == si { (lo, lo + v) } else { (10.0, 200.0) }; let src = f.glyphs[i].sources.get_mut(&k).unwrap(); src.contours = vec![square(x0, 10.0, 1.0), square(x1, 10.0, 1.0)]; } }
        Field::CompOffsetX => { let i = gl(f, "C"); f.glyphs[i].sources.get_mut(&si).unwrap().comps[0].xf[4] = v; }
        Field::CompOffsetY => { let i = gl(f, "C"); f.glyphs[i].sources.get_mut(&si).unwrap().comps[0].xf[5] = v; }
        // each factor fits the 2.14 range; their product may not (1.5 x 1.5 = 2.25)
        Field::NestedScale => { let i = gl(f, "_part"); let x = &mut f.glyphs[i].sources.get_mut(&si).unwrap().comps[0].xf; x[0] = v; x[3] = v.abs(); let j = gl(f, "D"); let y = &mut f.glyphs[j].sources.get_mut(&si).unwrap().comps[0].xf; y[0] = v.abs(); y[3] = 1.5; }
        Field::MixedScale => { let i = gl(f, "E"); let x = &mut f.glyphs[i].sources.get_mut(&si).unwrap().comps[0].xf; x[0] = v; x[3] = v.abs().min(1.5); }
        Field::CompScale => { let i = gl(f, "C"); let x = &mut f.glyphs[i].sources.get_mut(&si).unwrap().comps[0].xf; x[0] = v; x[3] = v.abs().min(1.5); }
        Field::Advance => { let i = gl(f, "A"); f.glyphs[i].sources.get_mut(&si).unwrap().advance = v; }
        Field::AdvanceHeight => { let i = gl(f, "A"); f.glyphs[i].sources.get_mut(&si).unwrap().height = Some(v); }
        Field::Kern => { f.sources[si].kerning.as_mut().unwrap().pairs.insert(("A".into(), "B".into()), v); }
        Field::AnchorX => { let i = gl(f, "A"); f.glyphs[i].sources.get_mut(&si).unwrap().anchors[0].1 = v; }
        Field::AnchorY => { let i = gl(f, "A"); f.glyphs[i].sources.get_mut(&si).unwrap().anchors[0].2 = v; }
        Field::Ascender => { f.sources[si].info.ascender = Some(v); }
        Field::TypoDescender => { f.sources[si].info.metrics.insert("openTypeOS2TypoDescender", v); }
    }
}

/// the value the source gives `field` in source `si` (the edited fields only)
fn model_value(f: &SynthFont, field: Field, si: usize) -> f64 {
    let g = |n: &str| f.glyph(n).unwrap().sources.get(&si).unwrap().clone();
    match field {
        Field::PointX => g("A").contours[0].pts[2].x, Field::PointY => g("A").contours[0].pts[2].y, Field::PointGap => g("B").contours[0].pts[1].x - g("B").contours[0].pts[0].x, Field::ContourGap => g("B").contours[1].pts[0].x - g("B").contours[0].pts[0].x,
        Field::CompOffsetX => g("C").comps[0].xf[4], Field::CompOffsetY => g("C").comps[0].xf[5], Field::CompScale => g("C").comps[0].xf[0], Field::NestedScale => g("_part").comps[0].xf[0], Field::MixedScale => g("E").comps[0].xf[0],
        Field::Advance => g("A").advance, Field::AdvanceHeight => g("A").height.unwrap_or(0.0), Field::Kern => f.sources[si].kerning.as_ref().and_then(|k| k.pairs.get(&("A".to_string(), "B".to_string())).copied()).unwrap_or(0.0),
        Field::AnchorX => g("A").anchors[0].1, Field::AnchorY => g("A").anchors[0].2, Field::Ascender => f.sources[si].info.ascender.unwrap_or(0.0), Field::TypoDescender => f.sources[si].info.metrics.get("openTypeOS2TypoDescender").copied().unwrap_or(0.0),
    }
}

/// how a wrong value relates to the right one: the signature names the mechanism, so that the recorded
/// saturation findings do not hide a value that went wrong in another way
fn how(f: &SynthFont, field: Field, v: f64, si: usize, got: f64) -> &'static str {
    let want = ot_round(v);
    let (lo, hi) = if matches!(field, Field::Advance | Field::AdvanceHeight) { (0.0, 65535.0) } else { (-32768.0, 32767.0) };
    if want.clamp(lo, hi) != want && (got - want.clamp(lo, hi)).abs() <= 1.0 { return "saturated"; }
    if si > 0 {
        // the delta stored for this source is taken against the default's value: with masters at 0, 1/2 and 1 no other master's
        // region reaches the location of this one
        let v0 = ot_round(model_value(f, field, 0));
        let delta = want - v0;
        if delta.clamp(-32768.0, 32767.0) != delta && (got - (v0 + delta.clamp(-32768.0, 32767.0))).abs() <= 1.0 { return "master-delta-saturated"; }
    }
    "not-carried"
}

/// with a font in hand: does it carry the value the source states?
fn check_value(rep: &mut CaseReport, f: &SynthFont, bytes: &[u8], field: Field, v: f64, si: usize) {
    let font = match Font::new(bytes) { Ok(x) => x, Err(e) => { rep.fail("output-unparseable", e); return; } };
    let gids = match gid_map(&font) { Ok(m) => m, Err(e) => { rep.fail("post-names-unreadable", e); return; } };
    let coords = f.font_coords(&f.sources[si].norm);
    let tol = if si == 0 { 0.0 } else { 1.0 } + 1e-6;
    let want = ot_round(v);
    let label = format!("{field:?} = {v} in source {si}");
    let gid = |n: &str| gids.get(n).copied();
    let outline = |n: &str| -> Option<Vec<Vec<(f64, f64, bool)>>> { font.resolved_outline(gid(n)?, Some(&coords), 0).ok() };
    let has_pt = |o: &Option<Vec<Vec<(f64, f64, bool)>>>, x: Option<f64>, y: Option<f64>| o.as_ref().map(|o| o.iter().flatten().any(|p| x.map_or(true, |x| (p.0 - x).abs() <= tol) && y.map_or(true, |y| (p.1 - y).abs() <= tol))).unwrap_or(false);
    match field {
        Field::PointX | Field::PointY => {
            let o = outline("A");
            let isx = field == Field::PointX;
            if !(if isx { has_pt(&o, Some(want), None) } else { has_pt(&o, None, Some(want)) }) {
                // the edited point is the extreme one in that direction
                let got = o.as_ref().map(|o| o.iter().flatten().map(|p| if isx { p.0 } else { p.1 }).fold(if want < 0.0 { f64::MAX } else { f64::MIN }, |m, x| if want < 0.0 { m.min(x) } else { m.max(x) })).unwrap_or(f64::NAN);
                rep.fail(format!("glyf-coordinate-{}", how(f, field, v, si, got)), format!("{label}: no point of A has {} = {want}; outline {o:?}", if isx { "x" } else { "y" }));
            }
        }
        Field::ContourGap => { let o = outline("B"); let lo = -(v / 2.0).floor(); if !(has_pt(&o, Some(lo), None) && has_pt(&o, Some(lo + v), None) && has_pt(&o, Some(lo + 1.0), None) && has_pt(&o, Some(lo + v + 1.0), None)) { rep.fail("glyf-step-between-contours-not-carried", format!("{label}: B should have contours at x = {lo} and x = {}; outline {o:?}", lo + v)); } }
        Field::PointGap => { let o = outline("B"); let lo = -(v / 2.0).floor(); if !(has_pt(&o, Some(lo), None) && has_pt(&o, Some(lo + v), None)) { rep.fail("glyf-point-difference-not-carried", format!("{label}: B should span x = {lo} .. {}; outline {o:?}", lo + v)); } }
        Field::CompOffsetX | Field::CompOffsetY | Field::CompScale | Field::NestedScale | Field::MixedScale => {
            let gname = match field { Field::NestedScale => "D", Field::MixedScale => "E", _ => "C" };
            let o = outline(gname);
            let exp = f.resolved(gname, si, &IDENT, 0).unwrap_or_default();
            let ok = exp.iter().flatten().all(|p| has_pt(&o, Some(ot_round(p.x)), Some(ot_round(p.y)))) || exp.iter().flatten().all(|p| has_pt(&o, Some(p.x.round()), Some(p.y.round())));
            // a component scale is stored as F2Dot14: 2.0 itself becomes 2 - 2^-14, which moves a point by |coordinate| x 2^-14
            let is_scale = matches!(field, Field::CompScale | Field::NestedScale | Field::MixedScale);
            let ok = ok || (is_scale && exp.iter().flatten().all(|p| o.as_ref().map(|o| o.iter().flatten().any(|q| (q.0 - p.x).abs() <= 0.5 + p.x.abs() / 8192.0 && (q.1 - p.y).abs() <= 0.5 + p.y.abs() / 8192.0)).unwrap_or(false)));
            let mech = if is_scale { "not-carried" } else { let got0 = o.as_ref().and_then(|o| o.iter().flatten().map(|q| if field == Field::CompOffsetX { q.0 } else { q.1 }).fold(None, |m: Option<f64>, x| Some(m.map_or(x, |m| if v < 0.0 { m.min(x) } else { m.min(x) })))).unwrap_or(f64::NAN); how(f, field, v, si, got0) };
            if !ok { rep.fail(if is_scale { "component-scale-not-carried".to_string() } else { format!("component-offset-{mech}") }, format!("{label}: resolved {gname} {o:?} vs source {:?}", exp.iter().flatten().map(|p| (p.x, p.y)).collect::<Vec<_>>())); }
        }
        Field::Advance => { if let Some(g) = gid("A") { let got = font.advance(g).map(|a| a.0 as f64).unwrap_or(f64::NAN) + font.hvar_advance_delta(g, &coords).ok().flatten().unwrap_or(0.0); if !((got - want).abs() <= tol) { rep.fail(format!("advance-width-{}", how(f, field, v, si, got)), format!("{label}: hmtx(+HVAR) says {got}")); } } }
        Field::AdvanceHeight => { if let Some(g) = gid("A") { match font.v_advance(g) { Some(a) => { let got = a.0 as f64 + font.vvar_advance_delta(g, &coords).ok().flatten().unwrap_or(0.0); if !((got - want).abs() <= tol) { rep.fail(format!("advance-height-{}", how(f, field, v, si, got)), format!("{label}: vmtx(+VVAR) says {got}")); } } None => rep.fail("advance-height-not-carried", format!("{label}: no vmtx")) } } }
        Field::Kern => {
            let Ok(l) = Layout::new(&font) else { rep.fail("layout-tables-unreadable", ""); return; };
            let lookups = l.lookups_for(Tbl::Gpos, "latn", "dflt", &coords, Some(&["kern"])).unwrap_or_default();
            let got = match (gid("A"), gid("B")) { (Some(a), Some(b)) if font.has(b"GPOS") => l.gpos_apply(&lookups, &[a, b], &coords).map(|p| p[0].x_adv).unwrap_or(f64::NAN), _ => 0.0 };
            if !((got - want).abs() <= tol) { rep.fail(format!("kerning-value-{}", how(f, field, v, si, got)), format!("{label}: kern feature applies {got}")); }
        }
        Field::AnchorX | Field::AnchorY => {
            let Ok(l) = Layout::new(&font) else { rep.fail("layout-tables-unreadable", ""); return; };
            // generated mark features are registered for DFLT (and whatever language systems the feature file declares; it declares none here)
            let lookups = l.lookups_for(Tbl::Gpos, "DFLT", "dflt", &coords, Some(&["mark"])).unwrap_or_default();
            let atts = match (gid("A"), gid("acutecomb")) { (Some(a), Some(m)) if font.has(b"GPOS") => l.mark_attachments(&lookups, 4, a, m, 0, &coords).unwrap_or_default(), _ => vec![] };
            match atts.last() { None => rep.fail("anchor-dropped", format!("{label}: no mark attachment for A + acutecomb; mark lookups {lookups:?}; GPOS features {:?}; GDEF classes {:?}", l.features(Tbl::Gpos, "DFLT", "dflt", &coords).unwrap_or_default(), l.glyph_class)), Some(att) => { let got = if field == Field::AnchorX { att.base.0 } else { att.base.1 }; if !((got - want).abs() <= tol) { rep.fail(format!("anchor-coordinate-{}", how(f, field, v, si, got)), format!("{label}: base anchor says {got}")); } } }
        }
        Field::Ascender => { let got = font.f.hhea().map(|h| h.ascender().to_i16() as f64).unwrap_or(f64::NAN) + font.mvar_delta(b"hasc", &coords).ok().flatten().unwrap_or(0.0); let os2 = font.f.os2().map(|o| o.s_typo_ascender() as f64).unwrap_or(f64::NAN) + font.mvar_delta(b"hasc", &coords).ok().flatten().unwrap_or(0.0); if !((os2 - want).abs() <= tol) && !((got - want).abs() <= tol) { rep.fail(format!("global-metric-{}", how(f, field, v, si, os2)), format!("{label}: OS/2 typo ascender {os2}, hhea ascender {got}")); } }
        Field::TypoDescender => { let got = font.f.os2().map(|o| o.s_typo_descender() as f64).unwrap_or(f64::NAN) + font.mvar_delta(b"hdsc", &coords).ok().flatten().unwrap_or(0.0); if !((got - want).abs() <= tol) { rep.fail(format!("global-metric-{}", how(f, field, v, si, got)), format!("{label}: OS/2 typo descender {got}")); } }
    }
}

pub fn check(ctx: &Ctx, genome: &[u16]) -> CaseReport {
    let mut rep = CaseReport::default();
    let mut g = Gen::new(genome);
    let case = make_case(&mut g);
    let f = &case.font;
    rep.key = fnv_str(&format!("{:?}{}{}", case.edits, f.is_variable(), case.prefer_simple_off));
    if case.prefer_simple_off { rep.class("prefer-simple-glyphs-off"); }
    rep.sample = Some(json!({"variable": f.is_variable(), "prefer_simple_glyphs_off": case.prefer_simple_off, "edits": case.edits.iter().map(|(fi, v, si)| json!({"field": format!("{fi:?}"), "value": v, "source": si, "representable": representable(*fi, *v)})).collect::<Vec<_>>()}));
    let files = ufo::render(f);
    if ctx.dry || case.edits.is_empty() { for (k, v) in files { rep.artifacts.push((k, v.into_bytes())); } rep.discard = case.edits.is_empty(); return rep; }
    rep.nontrivial = case.edits.iter().any(|(fi, v, _)| !representable(*fi, *v));
    for (fi, v, si) in &case.edits { rep.class(format!("{fi:?}:{}", if representable(*fi, *v) { "in-range" } else { "out-of-range" })); if *si == 1 { rep.class("in-non-default-master"); } if *si == 2 { rep.class("in-sparse-layer-source"); } }
    if f.sources.len() > 2 { rep.class("has-sparse-layer-source"); }
    let scratch = Scratch::new(&ctx.work);
    let ds = ufo::write_tree(scratch.path(), &files).expect("write tree");
    let mut outcomes = vec![];
    for release in [false, true] {
        let w = scratch.path().join(if release { "rel" } else { "dev" }); let _ = std::fs::create_dir_all(&w);
        let extra: &[&str] = if case.prefer_simple_off { &["--prefer-simple-glyphs", "false"] } else { &[] };
        outcomes.push(run_fontc(&fontc_bin(release), &ds, &w, extra, 120));
    }
    let attach = |rep: &mut CaseReport| { if rep.artifacts.is_empty() { for (k, v) in &files { rep.artifacts.push((k.clone(), v.clone().into_bytes())); } } };
    let tag = case.edits.iter().map(|(fi, _, _)| format!("{fi:?}")).collect::<Vec<_>>().join("+");
    match (&outcomes[0], &outcomes[1]) {
        (Outcome::Violation(s, d), _) | (_, Outcome::Violation(s, d)) => { rep.fail(format!("process-contract:{s}"), format!("{tag}: {d}")); }
        (Outcome::Built(a), Outcome::Built(b)) => {
            rep.class("built");
            if a != b { rep.fail("profiles-disagree-on-bytes", "debug and release builds both succeed but emit different fonts".to_string()); }
            for (fi, v, si) in &case.edits { rep.evals += 1; check_value(&mut rep, f, b, *fi, *v, *si); }
        }
        (Outcome::Reported(_), Outcome::Reported(_)) => {
            rep.class("rejected");
            if case.edits.iter().all(|(fi, v, _)| representable(*fi, *v)) { rep.class("in-range-value-rejected"); }
        }
        (Outcome::Built(_), Outcome::Reported(m)) => { rep.fail("profiles-disagree:debug-builds-release-rejects", format!("{tag}: {m}")); }
        (Outcome::Reported(m), Outcome::Built(b)) => {
            rep.fail("profiles-disagree:debug-rejects-release-builds", format!("{tag}: debug build: {m}"));
            for (fi, v, si) in &case.edits { check_value(&mut rep, f, b, *fi, *v, *si); }
        }
    }
    if !rep.failures.is_empty() { attach(&mut rep); }
    rep
}

pub fn parts() -> Vec<Part> {
    vec![Part { name: "boundaries", genome_len: 40, cases_quick: 1200, cases_thorough: 20000, threads: 14, max_shrink_iters: 60, check: Box::new(check), remote: None }]
}
pub const RULE: &str = "a small static or two-master source (simple glyphs, a composite, a mark with anchors, one kerning pair, optional vertical metrics) with one or two numeric fields set to a boundary value: outline x / y, the difference between two consecutive in-range points, the step between two one-unit-wide contours with every coordinate in range, component offset x / y, component scale (direct, through a nested non-export part whose factors each fit but whose product does not, and in a glyph that also has an outline, with prefer-simple-glyphs on or off), advance width / height, kerning value, anchor x / y, ascender, typo descender; values at limit-1, limit, limit+1, half-unit neighbours, 2 x limit and their negatives; in the default master, the other master, or (outline and advance fields, half of the variable cases) a sparse layer source half way along the axis that only the two outline glyphs have. Both fontc binaries (dev profile: overflow checks on; release: off) run as processes: outcomes must agree (both reject with a diagnostic, or both build byte-identical fonts) and a built font must carry every edited value unchanged (own readers: resolved outline, hmtx/vmtx + HVAR/VVAR, kern feature, mark anchors, OS/2 / hhea + MVAR) or, for component scales, draw the same shape. non-trivial = at least one edited field is outside its representable range";
pub const ASSUMPTIONS: &[&str] = &["values in a non-default master are compared at that master's location with 1 unit of tolerance (delta rounding); default-master values exactly", "a successive-point difference beyond 16 bits with both end points in range counts as not representable (the statement lists it)", "a main-thread panic is reported by fontc as an error since the C15 repair; a panic in one profile and a font in the other is a disagreement"];
