//! C12 — Component handling options never change what a glyph looks like.
//! Metamorphic: one source, several subsets of {flatten, decompose, decompose-transformed,
//! prefer-simple off}; every exported glyph is resolved through its components at every source
//! location (and extra interior locations when the glyph and its components share one source set)
//! with the independent glyf/gvar evaluator, and compared between builds.
use crate::genome::{fnv_str, Gen};
use crate::ot::outline::{hausdorff, match_contours, tt_segments};
use crate::ot::{Font, RawGlyph};
use crate::props::c03::{classify, describe, gid_map};
use crate::run::{CaseReport, Ctx, Part};
use crate::synth::build::{compile_path, BuildOpts, Scratch};
use crate::synth::model::*;
use crate::synth::ufo;
use serde_json::json;
use std::collections::BTreeSet;

pub fn profile() -> Profile {
    Profile { components: 9, max_glyphs: 9, min_glyphs: 3, ..Profile::outlines() }
}

fn opts_from_bits(b: usize) -> BuildOpts {
    BuildOpts { flatten: b & 1 != 0, decompose: b & 2 != 0, decompose_transformed: b & 4 != 0, no_prefer_simple: b & 8 != 0, ..Default::default() }
}

fn closure(f: &SynthFont, name: &str, out: &mut BTreeSet<String>) {
    if !out.insert(name.to_string()) { return; }
    if let Some(g) = f.glyph(name) { for s in g.sources.values() { for c in &s.comps { closure(f, &c.base, out); } } }
}

/// rounding error bound of the fully resolved outline of `name` in one build: every stored
/// coordinate (point or offset) is within r of its exact value; errors of a base are scaled by the
/// component's 2x2
fn err_bound(f: &SynthFont, name: &str, r: f64, depth: usize) -> f64 {
    if depth > 8 { return r; }
    let Some(src) = f.glyph(name).and_then(|g| g.sources.get(&0)) else { return r };
    let mut b = r;
    for c in &src.comps {
        let norm = (c.xf[0].abs() + c.xf[2].abs()).max(c.xf[1].abs() + c.xf[3].abs()).max(1.0);
        b = b.max(r + norm * err_bound(f, &c.base, r, depth + 1));
    }
    b
}

pub fn check(ctx: &Ctx, genome: &[u16]) -> CaseReport {
    let mut rep = CaseReport::default();
    let mut g = Gen::new(genome);
    let mut og = g.fork(8);
    let f = SynthFont::decode(&genome[8.min(genome.len())..], &profile());
    rep.key = f.hash();
    classify(&mut rep, &f);
    let all = ctx.tier == crate::run::Tier::Thorough || ctx.strict;
    let mut sets: Vec<usize> = vec![0];
    if all { sets.extend(1..16); } else { while sets.len() < 6 { let b = 1 + og.below(15); if !sets.contains(&b) { sets.push(b); } else { let nb = (1..16).find(|x| !sets.contains(x)).unwrap(); sets.push(nb); } } }
    rep.sample = Some(json!({"font": describe(&f), "option_sets": sets.iter().map(|b| opts_from_bits(*b).label()).collect::<Vec<_>>()}));
    let files = ufo::render(&f);
    if ctx.dry { for (k, v) in files { rep.artifacts.push((k, v.into_bytes())); } return rep; }
    let scratch = Scratch::new(&ctx.work);
    let ds = ufo::write_tree(scratch.path(), &files).expect("write tree");
    let mut builds: Vec<(BuildOpts, Vec<u8>)> = vec![];
    for b in &sets {
        let o = opts_from_bits(*b);
        match compile_path(&ds, &o) {
            Ok(bytes) => builds.push((o, bytes)),
            Err(e) => { rep.fail(format!("valid-source-rejected:{}", crate::run::normalize_sig(e.text().split(['\'', '"', ':']).next().unwrap_or(""))), format!("fontc failed with options [{}]: {}", o.label(), e.text())); }
        }
    }
    let attach = |rep: &mut CaseReport| { if !rep.failures.is_empty() && rep.artifacts.is_empty() { for (k, v) in &files { rep.artifacts.push((k.clone(), v.clone().into_bytes())); } } };
    if builds.len() < 2 { attach(&mut rep); return rep; }
    let fonts: Vec<Font> = match builds.iter().map(|(_, b)| Font::new(b)).collect::<Result<Vec<_>, _>>() { Ok(v) => v, Err(e) => { rep.fail("output-unparseable", e); attach(&mut rep); return rep; } };
    let gid_maps: Vec<_> = match fonts.iter().map(gid_map).collect::<Result<Vec<_>, _>>() { Ok(v) => v, Err(e) => { rep.fail("post-names-unreadable", e); attach(&mut rep); return rep; } };
    // locations: every source location; plus interior points for glyphs with a uniform source set
    let n_axes = f.axes.len();
    let mut extra: Vec<Vec<f64>> = vec![];
    if n_axes > 0 { for _ in 0..2 { extra.push(f.axes.iter().map(|a| { let v = [0.25, 0.5, 0.75, -0.5, -0.25, 0.625][og.clone().below(6)]; og.word(); if v > 0.0 && a.d_above == 0.0 || v < 0.0 && a.d_below == 0.0 { 0.0 } else { v } }).collect()); } }
    let mut structure_differs = false;
    for gl in f.glyphs.iter().filter(|g| g.export) {
        let mut cl = BTreeSet::new(); closure(&f, &gl.name, &mut cl);
        let own: BTreeSet<usize> = gl.sources.keys().copied().collect();
        let uniform = cl.iter().all(|n| f.glyph(n).map(|x| x.sources.keys().copied().collect::<BTreeSet<_>>() == own).unwrap_or(false));
        let cubic = cl.iter().any(|n| f.glyph(n).map(|x| x.kind == OutlineKind::Cubic).unwrap_or(false));
        let mut locs: Vec<(Vec<f64>, bool)> = vec![];
        for (si, s) in f.sources.iter().enumerate() {
            // every location where the glyph or any transitive component has a source: a glyph that is
            // decomposed or flattened has to carry those locations to keep drawing what the composite draws
            let somewhere = cl.iter().any(|n| f.glyph(n).map(|x| x.sources.contains_key(&si)).unwrap_or(false));
            let everywhere = cl.iter().all(|n| f.glyph(n).map(|x| x.sources.contains_key(&si)).unwrap_or(false));
            // ... but not beyond the glyph's own outermost masters: there its own values (advance, offsets) are an
            // extrapolation (OpenType regions end at the outermost master, the value drops back to the default), which
            // no added master can reproduce on both sides, so the storage forms legitimately differ
            // (on a side of an axis where the glyph has no master of its own its values are simply the default's: no ambiguity)
            let inside_own_span = (0..n_axes).all(|a| { let l = s.norm[a]; if l == 0.0 { return true; } let far = gl.sources.keys().map(|k| f.sources[*k].norm[a]).filter(|m| *m * l > 0.0).fold(0.0f64, |x, m| x.max(m.abs())); far == 0.0 || l.abs() <= far });
            if everywhere || uniform || (somewhere && inside_own_span) { locs.push((s.norm.clone(), si == 0)); }
        }
        if uniform { for x in &extra { locs.push((x.clone(), false)); } }
        let gids: Vec<Option<u16>> = gid_maps.iter().map(|m| m.get(&gl.name).copied()).collect();
        if gids.iter().any(|x| x.is_none()) { rep.fail("exported-glyph-missing-under-some-options", format!("{}: {:?}", gl.name, gids)); continue; }
        let raws: Vec<RawGlyph> = fonts.iter().zip(&gids).filter_map(|(ft, g)| ft.glyph(g.unwrap()).ok()).collect();
        if raws.len() == fonts.len() && raws.iter().any(|r| matches!(r, RawGlyph::Composite { .. })) && raws.iter().any(|r| matches!(r, RawGlyph::Simple { .. })) { structure_differs = true; }
        for (norm, is_default) in &locs {
            let coords = f.font_coords(norm);
            let mut outs = vec![];
            for (k, ft) in fonts.iter().enumerate() {
                let gid = gids[k].unwrap();
                let o = ft.resolved_outline(gid, Some(&coords), 0);
                let raw = ft.glyph(gid);
                let s = raw.as_ref().ok().and_then(|r| ft.gvar_deltas(gid, &coords, r).ok()).map(|x| x.1).unwrap_or(0.0);
                let adv = ft.advance(gid).map(|a| a.0 as f64 + ft.hvar_advance_delta(gid, &coords).ok().flatten().unwrap_or(0.0));
                match (o, adv) { (Ok(o), Ok(a)) => outs.push((o, s, a)), (Err(e), _) | (_, Err(e)) => { rep.fail("instantiation-failed", format!("{} [{}]: {e}", gl.name, builds[k].0.label())); } }
            }
            if outs.len() != fonts.len() { continue; }
            let smax = outs.iter().map(|o| o.1).fold(0.0, f64::max).max(if *is_default { 0.0 } else { 1.0 });
            let r = if *is_default { 0.5 } else { 0.5 + 0.5 * smax };
            let tol = 2.0 * err_bound(&f, &gl.name, r, 0) + 1e-6;
            for k in 1..outs.len() {
                rep.evals += 1;
                let (a, b) = (&outs[0].0, &outs[k].0);
                let label = format!("glyph {} at {:?}: [{}] vs [{}]", gl.name, coords, builds[0].0.label(), builds[k].0.label());
                if (outs[0].2 - outs[k].2).abs() > if *is_default { 0.0 } else { 1.0 + 1e-6 } { rep.fail("advance-differs-between-component-options", format!("{label}: {} vs {}", outs[0].2, outs[k].2)); }
                if a.len() != b.len() { rep.fail("contour-count-differs-between-component-options", format!("{label}: {} vs {} contours", a.len(), b.len())); continue; }
                let structural = if cubic { None } else { match_contours(a, b, 0.5).ok() };
                match structural {
                    Some(d) => { if d > tol { rep.fail("outline-differs-between-component-options", format!("{label}: max coordinate deviation {d:.3} > {tol:.3}\n a={a:?}\n b={b:?}")); } }
                    None => {
                        let sa: Vec<_> = a.iter().flat_map(|c| tt_segments(c)).collect(); let sb: Vec<_> = b.iter().flat_map(|c| tt_segments(c)).collect();
                        let d = hausdorff(&sa, &sb);
                        let ctol = tol * 1.5 + if cubic { 2.0 * (f.upem as f64 / 1000.0) * err_bound(&f, &gl.name, 1.0, 0) + 1.5 } else { 1.0 };
                        if d > ctol { rep.fail("outline-differs-between-component-options", format!("{label}: Hausdorff distance {d:.3} > {ctol:.3}")); }
                        if !cubic { rep.class("structure-mismatch-compared-by-distance"); }
                    }
                }
            }
        }
    }
    let has_nested_or_xf = f.glyphs.iter().any(|g| f.max_depth(&g.name) >= 2 || g.sources.get(&0).map(|s| s.comps.iter().any(|c| c.xf[..4] != [1.0, 0.0, 0.0, 1.0])).unwrap_or(false));
    rep.nontrivial = has_nested_or_xf && structure_differs;
    if structure_differs { rep.class("glyf-structure-differs-between-builds"); }
    rep.key ^= fnv_str(&format!("{sets:?}"));
    attach(&mut rep);
    rep
}

pub fn parts() -> Vec<Part> {
    vec![Part { name: "options", genome_len: 1400, cases_quick: 120, cases_thorough: 1500, threads: 12, max_shrink_iters: 150, check: Box::new(check), remote: None }]
}
pub const RULE: &str = "genome -> SynthFont biased to components (nested to depth 3, scaled / flipped / rotated / sheared / >2.0 scale, mixed contour+component, non-export bases, per-master offsets, sparse glyphs); built with the default flags and 5 other (quick) / all 15 other (thorough) subsets of {flatten, decompose, decompose-transformed, prefer-simple off}; every exported glyph resolved through its components (own glyf + gvar + IUP evaluator) at every source location of the glyph or any transitive component that does not lie beyond the glyph's own outermost master on a side of an axis where it has one (anywhere when all of them have a source there or share one source set, then also at 2 interior locations); contours matched up to start point / direction / implied points, advances from hmtx+HVAR. non-trivial = source has a nested or transformed component and at least one glyph is stored as a composite in one build and as a simple glyph in another";
pub const ASSUMPTIONS: &[&str] = &["tolerance between two builds = 2 x (r + norm(2x2) x bound(base)) accumulated over the component tree, r = 0.5 at the default location and 0.5 + 0.5 x sum of active region scalars elsewhere (each stored coordinate is rounded once; IUP tolerance 0.5 per region)", "glyphs with a cubic glyph in their component closure are compared by sampled Hausdorff distance with cu2qu tolerance (upem/1000 per conversion, scaled through the transforms)", "locations where a transitive component has no source of its own are compared only when the whole closure shares one source set (otherwise the two storage forms legitimately interpolate different things)"];
