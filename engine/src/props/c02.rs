//! C02 — Task-graph safety: every read is ordered after its producer in all schedules.
//! (1) history invariant over the H1/H2 event log (forced-order graph + conflict check),
//! (3) real executor under seeded jitter and several thread counts: must succeed, same bytes.
use crate::genome::{fnv_str, Gen};
use crate::props::c03::{classify, describe};
use crate::props::c05::gen_opts;
use crate::remote::RemoteCfg;
use crate::run::{CaseReport, Ctx, Part};
use crate::synth::build::{compile_path, BuildOpts, Scratch};
use crate::synth::corpus::fixtures;
use crate::synth::model::*;
use crate::synth::ufo;
use fontdrasil::orchestration::verif::{self, Event};
use serde_json::json;
use std::collections::{BTreeMap, BTreeSet, HashMap, HashSet};
use std::path::Path;

/// strip arguments: `Fe(Glyph("a"))` -> `Fe(Glyph)`, `hs:Be(GlyfFragment("a"))` -> `hs:Be(GlyfFragment)`, `Glyph("a")` -> `Glyph`
pub fn kind_of(name: &str) -> String {
    let ident = |s: &str| -> String { s.chars().take_while(|c| c.is_alphanumeric() || *c == '_' || *c == ':').collect() };
    let mut parts = name.splitn(3, '(');
    let head = ident(parts.next().unwrap_or(""));
    if head.ends_with("Fe") || head.ends_with("Be") {
        match parts.next() { Some(inner) => format!("{head}({})", ident(inner)), None => head }
    } else { head }
}

pub struct Analysis { pub races: Vec<(String, String)>, pub dynamic_jobs: usize, pub launches: usize, pub jobs: usize, pub protocol: Vec<(String, String)> }

pub fn analyze(log: &[Event]) -> Analysis {
    let mut edges: HashMap<String, BTreeSet<String>> = HashMap::new();
    let mut add = |a: &str, b: &str, edges: &mut HashMap<String, BTreeSet<String>>| { if a != b && !a.is_empty() && !b.is_empty() { edges.entry(a.to_string()).or_default().insert(b.to_string()); } };
    // writers of each item so far (actor names), in log order
    let mut writers: HashMap<String, BTreeSet<String>> = HashMap::new();
    let mut accesses: BTreeMap<String, BTreeSet<(String, bool)>> = BTreeMap::new();
    let mut read_all: BTreeMap<&'static str, BTreeSet<String>> = BTreeMap::new();
    let mut map_writes: BTreeMap<&'static str, BTreeSet<(String, String)>> = BTreeMap::new();
    let mut in_hs: Option<String> = None;
    let (mut dynamic_jobs, mut launches, mut jobs) = (0, 0, 0);
    let mut begun: HashSet<String> = HashSet::new();
    let mut ended: HashSet<String> = HashSet::new();
    let mut handled: HashSet<String> = HashSet::new();
    let mut protocol = vec![];
    for ev in log {
        match ev {
            Event::Sched { kind, job, extra } => match *kind {
                "insert" => { jobs += 1; if let Some(c) = &in_hs { dynamic_jobs += 1; add(&format!("hs:{c}"), job, &mut edges); } }
                "launch" => {
                    launches += 1;
                    for dep in extra {
                        // the scheduler waited for the job carrying this id; its writes were made by whoever wrote the item
                        if let Some(ws) = writers.get(dep) { for w in ws.clone() { add(&w, job, &mut edges); } }
                        add(dep, job, &mut edges);
                        // a dependency that was not finished when the dependant was launched: can_run is broken
                        if begun.contains(dep) && !ended.contains(dep) { protocol.push(("launched-before-dependency-finished".to_string(), format!("{job} launched while {dep} was still running"))); }
                    }
                }
                // a job whose access is rewritten while handling C's success could not run before (its access was Unknown)
                "rewrite" => { if let Some(c) = &in_hs { add(&format!("hs:{c}"), job, &mut edges); } }
                "begin" => { if !begun.insert(job.clone()) { protocol.push(("job-executed-twice".into(), job.clone())); } }
                "end" => { ended.insert(job.clone()); }
                "hs_begin" => { in_hs = Some(job.clone()); add(job, &format!("hs:{job}"), &mut edges); if !handled.insert(job.clone()) { protocol.push(("success-handled-twice".into(), job.clone())); } }
                "hs_end" => { in_hs = None; }
                _ => {}
            },
            Event::Access { actor, item, write } => {
                if actor.is_empty() || actor == "main" { continue; }
                if *write { writers.entry(item.clone()).or_default().insert(actor.clone()); }
                accesses.entry(item.clone()).or_default().insert((actor.clone(), *write));
            }
            Event::ReadAll { actor, map } => { if !actor.is_empty() && actor != "main" { read_all.entry(map).or_default().insert(actor.clone()); } }
            Event::MapWrite { actor, map, item } => { if !actor.is_empty() && actor != "main" { map_writes.entry(map).or_default().insert((actor.clone(), item.clone())); } }
        }
    }
    // reachability with memo
    let mut memo: HashMap<String, HashSet<String>> = HashMap::new();
    fn reach<'a>(from: &str, edges: &HashMap<String, BTreeSet<String>>, memo: &'a mut HashMap<String, HashSet<String>>) -> &'a HashSet<String> {
        if !memo.contains_key(from) {
            let mut seen: HashSet<String> = HashSet::new();
            let mut stack = vec![from.to_string()];
            while let Some(n) = stack.pop() { if let Some(next) = edges.get(&n) { for m in next { if seen.insert(m.clone()) { stack.push(m.clone()); } } } }
            memo.insert(from.to_string(), seen);
        }
        &memo[from]
    }
    let ordered = |a: &str, b: &str, memo: &mut HashMap<String, HashSet<String>>| -> bool { reach(a, &edges, memo).contains(b) || reach(b, &edges, memo).contains(a) };
    let mut races: Vec<(String, String)> = vec![];
    let mut seen_sig: HashSet<String> = HashSet::new();
    for (item, accs) in &accesses {
        let v: Vec<&(String, bool)> = accs.iter().collect();
        for i in 0..v.len() { for j in i + 1..v.len() {
            let (a, b) = (v[i], v[j]);
            if a.0 == b.0 || !(a.1 || b.1) { continue; }
            if !ordered(&a.0, &b.0, &mut memo) {
                let (w, r) = if a.1 { (a, b) } else { (b, a) };
                let sig = format!("unordered-access:{}:{}{}~{}", kind_of(item), kind_of(&w.0), if r.1 { "(w)" } else { "" }, kind_of(&r.0));
                if seen_sig.insert(sig.clone()) { races.push((sig, format!("item {item}: {} writes, {} {} - no dependency forces an order between them", w.0, r.0, if r.1 { "writes" } else { "reads" }))); }
            }
        } }
    }
    for (map, readers) in &read_all {
        if let Some(ws) = map_writes.get(map) {
            for r in readers { for (w, item) in ws {
                if r == w { continue; }
                if !ordered(r, w, &mut memo) {
                    let sig = format!("unordered-whole-map-read:{}:{}~{}", map.rsplit("::").next().unwrap_or(map), kind_of(w), kind_of(r));
                    if seen_sig.insert(sig.clone()) { races.push((sig, format!("{r} reads every entry of the {map} map while {w} writes entry {item}; no dependency forces an order"))); }
                }
            } }
        }
    }
    Analysis { races, dynamic_jobs, launches, jobs, protocol }
}

const FAILURE_PATTERNS: &[&str] = &["is not available", "Illegal read", "Illegal write", "completed but isn't pending", "Multiple completions", "Repeat signals", "Unable to proceed", "unable to proceed", "A task panicked", "No errors but only", "Not all counts"];

/// run one source under several schedules; returns #schedules
pub fn schedules(rep: &mut CaseReport, source: &Path, opts: &BuildOpts, seeds: &[(u64, usize)]) -> (usize, usize, usize) {
    let mut reference: Option<Vec<u8>> = None;
    let (mut dynamic, mut launches) = (0, 0);
    for (k, (seed, threads)) in seeds.iter().enumerate() {
        unsafe { std::env::set_var("RAYON_NUM_THREADS", threads.to_string()); }
        verif::set_jitter_seed(*seed);
        verif::set_actor("main");
        let _ = verif::take();
        verif::enable(true);
        let r = compile_path(source, opts);
        verif::enable(false);
        let log = verif::take();
        verif::set_jitter_seed(0);
        let a = analyze(&log);
        dynamic = dynamic.max(a.dynamic_jobs); launches = launches.max(a.launches);
        for (s, d) in a.races { rep.fail(s, format!("schedule {k} (jitter seed {seed}, {threads} threads): {d}")); }
        for (s, d) in a.protocol { rep.fail(s, format!("schedule {k} (jitter seed {seed}, {threads} threads): {d}")); }
        match r {
            Ok(bytes) => match &reference { None => reference = Some(bytes), Some(rf) => if *rf != bytes { rep.fail(format!("bytes-depend-on-schedule:{}", crate::props::c01::differing_table(rf, &bytes)), format!("schedule 0 vs {k} (jitter seed {seed}, {threads} threads): {}", crate::props::c01::first_difference(rf, &bytes))); } },
            Err(e) => {
                let t = e.text().to_string();
                if let Some(p) = FAILURE_PATTERNS.iter().find(|p| t.contains(**p)) { rep.fail(format!("scheduling-failure:{}", p.replace(' ', "-")), format!("schedule {k} (jitter seed {seed}, {threads} threads): {t}")); }
                else if reference.is_some() { rep.fail("build-outcome-depends-on-schedule", format!("schedule {k}: {t}")); }
                else if k == 0 { rep.class("source-rejected"); rep.discard = true; return (0, 0, 0); }
            }
        }
    }
    (seeds.len(), dynamic, launches)
}

fn profile() -> Profile {
    Profile { min_axes: 0, max_axes: 2, max_glyphs: 16, min_glyphs: 3, outlines: true, cubic: false, components: 7, transforms: true, mixed: true, sparse: 2,
        order_variety: true, non_export: true, metrics_class_a: false, vertical: true, half_coords: false, maps: false, awkward_axes: false, multi_codepoints: false, ps_names: false, anchors: true, kerning: true, instances: false, flat_maps: false, point_axis: false, weird_names: false, ..Profile::base() }
}

fn seeds_for(g: &mut Gen, n: usize) -> Vec<(u64, usize)> {
    (0..n).map(|k| (if k == 0 { 0 } else { 1 + g.word() as u64 * 7919 + k as u64 }, [16usize, 1, 2, 4, 16, 3, 8, 16][k % 8])).collect()
}

pub fn check_synth(ctx: &Ctx, genome: &[u16]) -> CaseReport {
    let mut rep = CaseReport::default();
    let mut g = Gen::new(genome);
    let mut og = g.fork(24);
    let mut opts = if og.chance(1, 2) { BuildOpts::default() } else { gen_opts(&mut og) };
    if og.chance(1, 2) { opts.no_prefer_simple = true; } // glyphs are created while the build runs
    let seeds = seeds_for(&mut og, if ctx.tier == crate::run::Tier::Quick { 6 } else { 24 });
    let mut f = SynthFont::decode(&genome[24.min(genome.len())..], &profile());
    // dangling component references are valid input (they are dropped with a warning)
    let mut dg = Gen::new(&genome[genome.len().saturating_sub(6)..]);
    if dg.chance(1, 4) { let n = f.glyphs.len(); let gi = dg.below(n); let only = dg.chance(1, 2); let gl = &mut f.glyphs[gi];
        if gl.name != ".notdef" { for src in gl.sources.values_mut() { if only { src.comps.clear(); } src.comps.push(Comp { base: "no_such_glyph".into(), xf: [1.0, 0.0, 0.0, 1.0, 10.0, 0.0] }); } rep.class("dangling-component"); } }
    rep.key = f.hash() ^ fnv_str(&opts.label());
    classify(&mut rep, &f);
    rep.sample = Some(json!({"options": opts.label(), "schedules": seeds, "font": describe(&f)}));
    let files = ufo::render(&f);
    if ctx.dry { for (k, v) in files { rep.artifacts.push((k, v.into_bytes())); } return rep; }
    let scratch = Scratch::new(&ctx.work);
    let ds = ufo::write_tree(scratch.path(), &files).expect("write tree");
    let (n, dynamic, launches) = schedules(&mut rep, &ds, &opts, &seeds);
    rep.evals = (n * launches.max(1)) as u64;
    rep.nontrivial = dynamic >= 1 && n >= 2;
    if dynamic > 0 { rep.class("jobs-created-during-build"); }
    if !rep.failures.is_empty() { for (k, v) in &files { rep.artifacts.push((k.clone(), v.clone().into_bytes())); } }
    rep
}

pub fn check_corpus(ctx: &Ctx, genome: &[u16]) -> CaseReport {
    let mut rep = CaseReport::default();
    let mut g = Gen::new(genome);
    let fx = fixtures(ctx);
    if fx.is_empty() { rep.discard = true; return rep; }
    let i = g.below(fx.len());
    let opts = if g.chance(1, 2) { BuildOpts::default() } else { gen_opts(&mut g) };
    let seeds = seeds_for(&mut g, if ctx.tier == crate::run::Tier::Quick { 4 } else { 16 });
    let rel = fx[i].strip_prefix(&ctx.repo).unwrap_or(&fx[i]).display().to_string();
    rep.key = fnv_str(&rel) ^ fnv_str(&opts.label());
    rep.sample = Some(json!({"fixture": rel, "options": opts.label(), "schedules": seeds}));
    if ctx.dry { return rep; }
    let (n, dynamic, launches) = schedules(&mut rep, &fx[i], &opts, &seeds);
    rep.evals = (n * launches.max(1)) as u64;
    rep.nontrivial = dynamic >= 1 && n >= 2;
    rep
}

const REMOTE: RemoteCfg = RemoteCfg { stack_bytes: 64 << 20, timeout_s: 600, mem_bytes: 8 << 30 };

pub fn parts() -> Vec<Part> {
    vec![
        Part { name: "synth", genome_len: 1700, cases_quick: 120, cases_thorough: 3000, threads: 8, max_shrink_iters: 60, check: Box::new(check_synth), remote: Some(REMOTE) },
        Part { name: "corpus", genome_len: 24, cases_quick: 100, cases_thorough: 2000, threads: 8, max_shrink_iters: 30, check: Box::new(check_corpus), remote: Some(REMOTE) },
    ]
}
pub const RULE: &str = "a source (SynthFont biased to many glyphs, composites, non-export and dangling components, mixed glyphs with prefer-simple off so glyphs are created while the build runs, kerning, vertical metrics; or a fixture) x options, built under 6 (quick) / 24 (thorough) schedules = (seeded jitter at job start / before counter decrement / before send / before handle_success) x worker-thread counts {1,2,3,4,8,16}, one build at a time per worker process. Oracles: (1) history invariant - from the event log of this run build the order the scheduler was forced to respect (launch-time dependencies that were already inserted, creator edges from handle_success, success handling after job end), close it transitively, and require an order between every two accesses to one context item by different steps where one writes (whole-map reads conflict with any entry write); (2) every schedule succeeds without unable-to-proceed / not-available / illegal access / double completion; (3) identical bytes across schedules. evaluations = schedules x jobs launched. non-trivial = >=1 job created during the build and >=2 schedules; distinct = hash(model or fixture, options)";
pub const ASSUMPTIONS: &[&str] = &["the OS schedule is perturbed, not owned: jitter and thread counts sample interleavings; the history invariant generalises each observed run to every schedule with the same job set and accesses", "intra-job ordering is not modelled (items are lock protected; the property is about order between steps)", "accesses by the calling thread outside handle_success (before the first launch, after the last completion) are not steps of the build"];
