//! Compiling a source tree with the code under test (in-process library entry point).
use fontc::{Flags, Input, Options};
use std::path::{Path, PathBuf};
use std::sync::atomic::{AtomicU64, Ordering};

#[derive(Clone, Debug, Default, PartialEq, Eq, Hash)]
pub struct BuildOpts {
    pub flatten: bool,
    pub decompose: bool,
    pub decompose_transformed: bool,
    pub no_prefer_simple: bool,
    pub keep_direction: bool,
    pub no_production_names: bool,
    pub propagate_anchors: Option<bool>,
    pub skip_features: bool,
    pub ir_dir: Option<PathBuf>,
}

impl BuildOpts {
    pub fn to_options(&self) -> Options {
        let mut flags = Flags::default();
        let mut disable = Flags::empty();
        flags.set(Flags::FLATTEN_COMPONENTS, self.flatten);
        flags.set(Flags::DECOMPOSE_COMPONENTS, self.decompose);
        flags.set(Flags::DECOMPOSE_TRANSFORMED_COMPONENTS, self.decompose_transformed);
        flags.set(Flags::PREFER_SIMPLE_GLYPHS, !self.no_prefer_simple);
        flags.set(Flags::KEEP_DIRECTION, self.keep_direction);
        flags.set(Flags::PRODUCTION_NAMES, !self.no_production_names);
        match self.propagate_anchors { Some(true) => flags.set(Flags::PROPAGATE_ANCHORS, true), Some(false) => disable.set(Flags::PROPAGATE_ANCHORS, true), None => {} }
        Options { flags, flags_to_disable: disable.into(), skip_features: self.skip_features, ir_dir: self.ir_dir.clone(), ..Default::default() }
    }
    pub fn cli_args(&self) -> Vec<String> {
        let mut a = vec![];
        if self.flatten { a.push("--flatten-components".into()); }
        if self.decompose { a.push("--decompose-components".into()); }
        if self.decompose_transformed { a.push("--decompose-transformed-components".into()); }
        if self.no_prefer_simple { a.push("--prefer-simple-glyphs".into()); a.push("false".into()); }
        if self.keep_direction { a.push("--keep-direction".into()); }
        if self.no_production_names { a.push("--no-production-names".into()); }
        match self.propagate_anchors { Some(true) => a.push("--propagate-anchors=true".into()), Some(false) => a.push("--propagate-anchors=false".into()), None => {} }
        if self.skip_features { a.push("--skip-features".into()); }
        a
    }
    pub fn label(&self) -> String { let a = self.cli_args(); if a.is_empty() { "default".into() } else { a.join(" ") } }
}

#[derive(Debug, Clone)]
pub enum BuildError { Reported(String), MainThreadPanic(String) }

impl BuildError {
    pub fn text(&self) -> &str { match self { BuildError::Reported(s) | BuildError::MainThreadPanic(s) => s } }
}

pub fn compile_path(path: &Path, opts: &BuildOpts) -> Result<Vec<u8>, BuildError> {
    let path = path.to_path_buf();
    let options = opts.to_options();
    let r = std::panic::catch_unwind(std::panic::AssertUnwindSafe(move || -> Result<Vec<u8>, String> {
        let input = Input::new(&path).map_err(|e| format!("{e}"))?;
        let source = input.create_source().map_err(|e| format!("{e}"))?;
        fontc::generate_font(source, options).map_err(|e| format!("{e}"))
    }));
    match r {
        Ok(Ok(b)) => Ok(b),
        Ok(Err(e)) => Err(BuildError::Reported(e)),
        Err(_) => Err(BuildError::MainThreadPanic(crate::run::LAST_PANIC.with(|p| p.borrow().clone()))),
    }
}

static COUNTER: AtomicU64 = AtomicU64::new(0);

/// a fresh scratch directory under the process work dir; removed on drop
pub struct Scratch(pub PathBuf);
impl Scratch {
    pub fn new(work: &Path) -> Scratch {
        let n = COUNTER.fetch_add(1, Ordering::Relaxed);
        let p = work.join(format!("c{n}"));
        let _ = std::fs::remove_dir_all(&p);
        std::fs::create_dir_all(&p).expect("scratch dir");
        Scratch(p)
    }
    pub fn path(&self) -> &Path { &self.0 }
}
impl Drop for Scratch { fn drop(&mut self) { let _ = std::fs::remove_dir_all(&self.0); } }
