//! ad-hoc probe: feaprobe <root> [name=path ...] : parse in-memory files given on disk, print tree text + diagnostics
use std::{collections::HashMap, path::{Path, PathBuf}, sync::Arc};
fn main() {
    let args: Vec<String> = std::env::args().collect();
    let mut files: HashMap<PathBuf, Arc<str>> = HashMap::new();
    for a in &args[2..] { let (n, p) = a.split_once('=').unwrap(); files.insert(PathBuf::from(n), Arc::from(std::fs::read_to_string(p).unwrap().as_str())); }
    let root = PathBuf::from(&args[1]);
    let f2 = files.clone();
    let (tree, diags) = fea_rs::parse::parse_root(root, None, Box::new(move |p: &Path| f2.get(p).cloned().ok_or_else(|| fea_rs::parse::SourceLoadError::new(p.to_path_buf(), "missing")))).unwrap();
    let text: String = tree.root().iter_tokens().map(|t| t.text.to_string()).collect();
    println!("TREE TEXT:\n{text}\n---- diagnostics: {} (errors: {})", diags.len(), diags.has_errors());
    for d in diags.diagnostics() { println!("  {:?} {:?} {}", d.level, d.span(), d.text()); }
}
