#!/bin/bash
# tools/try_seed.sh <Cxx> <A|B|...> [check ids ...] [-- tier]
# Applies seeded/<Cxx>/<X>/patch.diff to /repo, runs the given checks (default: <Cxx>) quick with
# replays/evidence redirected to target/alt-out/, reverts /repo. Prints one result line per check.
set -u
HERE="$(cd "$(dirname "$0")/.." && pwd)"
ID="$1"; X="$2"; shift 2
CHECKS=("$@"); [ ${#CHECKS[@]} -eq 0 ] && CHECKS=("$ID")
P="$HERE/seeded/$ID/$X/patch.diff"
if ! git -C /repo diff --quiet; then echo "/repo working tree is dirty; refusing"; exit 2; fi
git -C /repo apply "$P" || { echo "patch does not apply"; exit 2; }
export VF_OUT="$HERE/target/alt-out/seed-$ID-$X"
rm -rf "$VF_OUT"; mkdir -p "$VF_OUT"
for c in "${CHECKS[@]}"; do
  out=$("$HERE/check" "$c" "${TIER:-quick}" 2>&1); rc=$?
  echo "SEED $ID/$X check=$c rc=$rc $(echo "$out" | grep -m1 VIOLATION)"
  echo "$out" | grep -A1 VIOLATION | sed -n 2p | cut -c1-400
done
git -C /repo checkout -- .
