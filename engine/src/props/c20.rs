//! C20 — Same design, same font through every entry point and container.
//! Differential / metamorphic: one design presented through several routes; emitted bytes compared.
use crate::genome::{fnv_str, Gen};
use crate::ot::Font;
use crate::props::c01::{first_difference, fontc_dev, run_cli};
use crate::run::{CaseReport, Ctx, Part};
use crate::synth::build::{compile_path, BuildError, BuildOpts, Scratch};
use crate::synth::corpus::fixtures;
use crate::synth::gplist;
use crate::synth::model::*;
use crate::synth::reformat::{reorder_xml_attributes, reverse_plist_keys};
use crate::synth::ufo;
use serde_json::json;
use std::path::{Path, PathBuf};

pub fn compile_glyphs_text(text: &str, opts: &BuildOpts) -> Result<Vec<u8>, BuildError> {
    let text = text.to_string();
    let options = opts.to_options();
    let r = std::panic::catch_unwind(std::panic::AssertUnwindSafe(move || -> Result<Vec<u8>, String> {
        let input = fontc::Input::from_glyphs(text);
        let source = input.create_source().map_err(|e| format!("{e}"))?;
        fontc::generate_font(source, options).map_err(|e| format!("{e}"))
    }));
    match r { Ok(Ok(b)) => Ok(b), Ok(Err(e)) => Err(BuildError::Reported(e)), Err(_) => Err(BuildError::MainThreadPanic(crate::run::LAST_PANIC.with(|p| p.borrow().clone()))) }
}

fn copy_dir(src: &Path, dst: &Path) -> std::io::Result<()> {
    std::fs::create_dir_all(dst)?;
    for e in std::fs::read_dir(src)? { let e = e?; let p = e.path(); let d = dst.join(e.file_name()); if p.is_dir() { copy_dir(&p, &d)?; } else { std::fs::copy(&p, &d)?; } }
    Ok(())
}

/// compare two outcomes of building "the same design"; errors must match in kind
fn compare(rep: &mut CaseReport, what: &str, a: &Result<Vec<u8>, BuildError>, b: &Result<Vec<u8>, BuildError>, same_compiler_build: bool) {
    rep.evals += 1;
    match (a, b) {
        (Ok(x), Ok(y)) => {
            if x == y { return; }
            if !same_compiler_build && equal_up_to_version_stamp(x, y) { return; }
            rep.fail(format!("bytes-differ:{what}"), format!("{what}: {}", first_difference(x, y)));
        }
        (Err(_), Err(_)) => {}
        (Ok(_), Err(e)) => rep.fail(format!("only-one-route-builds:{what}"), format!("{what}: the reference route builds, the other fails: {}", e.text())),
        (Err(e), Ok(_)) => rep.fail(format!("only-one-route-builds:{what}"), format!("{what}: the reference route fails ({}), the other builds", e.text())),
    }
}

/// the CLI binary and the harness link separate builds of the compiler: the only admissible difference is the
/// ';fontc <version>' stamp in name id 5 (and what follows from it: name table bytes, checksums)
fn equal_up_to_version_stamp(a: &[u8], b: &[u8]) -> bool {
    let (Ok(fa), Ok(fb)) = (Font::new(a), Font::new(b)) else { return false };
    let tags = |f: &Font| -> Vec<read_fonts::types::Tag> { f.f.table_directory.table_records().iter().map(|r| r.tag()).collect() };
    if tags(&fa) != tags(&fb) { return false; }
    for t in tags(&fa) {
        let (da, db) = (fa.f.table_data(t).map(|d| d.as_bytes().to_vec()), fb.f.table_data(t).map(|d| d.as_bytes().to_vec()));
        if da == db { continue; }
        match &t.to_be_bytes() {
            b"head" => { // checkSumAdjustment only
                let (Some(mut x), Some(mut y)) = (da, db) else { return false };
                if x.len() != y.len() || x.len() < 12 { return false; }
                for k in 8..12 { x[k] = 0; y[k] = 0; }
                if x != y { return false; }
            }
            b"name" => {
                let strip = |f: &Font| -> Option<Vec<(u16, u16, u16, u16, String)>> {
                    use read_fonts::TableProvider;
                    let n = f.f.name().ok()?;
                    Some(n.name_record().iter().map(|r| { let s: String = r.string(n.string_data()).map(|s| s.chars().collect()).unwrap_or_default(); let s = if r.name_id().to_u16() == 5 { s.split_once(";fontc ").map(|(h, _)| h.to_string()).unwrap_or(s) } else { s }; (r.platform_id(), r.encoding_id(), r.language_id(), r.name_id().to_u16(), s) }).collect())
                };
                if strip(&fa) != strip(&fb) || strip(&fa).is_none() { return false; }
            }
            _ => return false,
        }
    }
    true
}

/// give the first glyph that has a single codepoint a second one (private use), in the notation of the file's format version
fn add_codepoint(mut t: gplist::V) -> Option<gplist::V> {
    use gplist::V;
    let V::Dict(items) = &mut t else { return None };
    let v3 = items.iter().any(|(k, v)| k.trim_matches('"') == ".formatVersion" && matches!(v, V::Atom(a) if a.trim_matches('"') == "3"));
    let (_, V::Array(glyphs)) = items.iter_mut().find(|(k, _)| k.trim_matches('"') == "glyphs")? else { return None };
    for gl in glyphs.iter_mut() {
        let V::Dict(gi) = gl else { continue };
        if let Some((_, u)) = gi.iter_mut().find(|(k, _)| k.trim_matches('"') == "unicode") {
            if let V::Atom(a) = u.clone() {
                let a = a.trim_matches('"').to_string();
                if a.contains(',') || a.is_empty() { continue; }
                *u = if v3 { V::Array(vec![V::Atom(a), V::Atom("57345".into())]) } else { V::Atom(format!("\"{a},E001\"")) };
                return Some(t);
            }
        }
    }
    None
}

fn glyphs_fixtures(ctx: &Ctx) -> Vec<PathBuf> { fixtures(ctx).iter().filter(|p| p.extension().and_then(|e| e.to_str()) == Some("glyphs")).cloned().collect() }
fn ufo_fixtures(ctx: &Ctx) -> Vec<PathBuf> { fixtures(ctx).iter().filter(|p| p.extension().and_then(|e| e.to_str()) == Some("ufo")).cloned().collect() }

pub fn check_glyphs(ctx: &Ctx, genome: &[u16]) -> CaseReport {
    let mut rep = CaseReport::default();
    let mut g = Gen::new(genome);
    let fx = glyphs_fixtures(ctx);
    if fx.is_empty() { rep.discard = true; return rep; }
    let path = &fx[g.below(fx.len())];
    let name = path.strip_prefix(&ctx.repo).unwrap_or(path).display().to_string();
    let Ok(text) = std::fs::read_to_string(path) else { rep.discard = true; return rep; };
    let variant = *g.pick(&["memory", "package", "whitespace", "key-order", "quoting", "cli"]);
    let style = gplist::style_from(&mut g, variant);
    rep.key = fnv_str(&format!("{name}{variant}{style:?}"));
    rep.sample = Some(json!({"fixture": name, "variant": variant, "style": format!("{style:?}")}));
    rep.class(format!("variant:{variant}"));
    if ctx.dry { return rep; }
    // feature code that includes other files resolves them relative to the file's directory; a copy elsewhere
    // or text in memory has no such directory (a documented difference): counted, not compared
    if text.contains("include(") { rep.class("skipped:feature-include"); rep.discard = true; return rep; }
    let opts = BuildOpts::default();
    let scratch = Scratch::new(&ctx.work);
    let fname = path.file_name().unwrap().to_string_lossy().to_string();
    // half of the cases first give one encoded glyph a second codepoint (the shape `unicode = (65,57345);` that
    // Glyphs writes for such glyphs) and take that file as the design
    let (text, path): (String, PathBuf) = if g.chance(1, 2) {
        match gplist::parse(&text).ok().and_then(|t| add_codepoint(t)) {
            Some(t2) => { rep.class("design:second-codepoint-added"); let t = gplist::to_text(&t2, &gplist::Style { spaces_around_eq: 1, ..Default::default() }); let p = scratch.path().join("design").join(&fname); std::fs::create_dir_all(p.parent().unwrap()).unwrap(); std::fs::write(&p, &t).unwrap(); (t, p) }
            None => (text, path.clone()),
        }
    } else { (text, path.clone()) };
    let path = &path;
    let reference = compile_path(path, &opts);
    if reference.is_err() { rep.class("reference-route-fails"); }
    let other: Result<Vec<u8>, BuildError> = match variant {
        "memory" => compile_glyphs_text(&text, &opts),
        "cli" => run_cli(&fontc_dev(), path, &opts, scratch.path(), 4, false).map_err(BuildError::Reported),
        "package" => {
            let Ok(tree) = gplist::parse(&text) else { rep.class("skipped:not-parsed-by-harness-reader"); rep.discard = true; return rep; };
            let Some(files) = gplist::split_package(&tree) else { rep.class("skipped:duplicate-glyph-names-or-no-glyphs"); rep.discard = true; return rep; };
            let pkg = scratch.path().join(fname.replace(".glyphs", ".glyphspackage"));
            for (rel, t) in &files { let p = pkg.join(rel); std::fs::create_dir_all(p.parent().unwrap()).unwrap(); std::fs::write(p, t).unwrap(); }
            rep.artifacts = files.iter().map(|(r, t)| (format!("package/{r}"), t.clone().into_bytes())).collect();
            compile_path(&pkg, &opts)
        }
        _ => {
            let Ok(tree) = gplist::parse(&text) else { rep.class("skipped:not-parsed-by-harness-reader"); rep.discard = true; return rep; };
            let t2 = gplist::to_text(&tree, &style);
            let p = scratch.path().join(&fname);
            std::fs::write(&p, &t2).unwrap();
            rep.artifacts = vec![(fname.clone(), t2.into_bytes())];
            compile_path(&p, &opts)
        }
    };
    compare(&mut rep, &format!("glyphs-file-vs-{variant}"), &reference, &other, variant != "cli");
    // recorded finding: the codepoint-list notation is only understood behind a bare `unicode` key
    if variant == "quoting" && text.contains("unicode = (") { if let Err(e) = &other { if e.text().contains("Expected string value") { for f in rep.failures.iter_mut() { f.signature = "quoted-unicode-key-with-codepoint-list-not-read".into(); } } } }
    rep.nontrivial = reference.as_ref().map(|b| b.len() > 1500).unwrap_or(false);
    if rep.failures.is_empty() { rep.artifacts.clear(); } else { rep.artifacts.push((format!("original/{fname}"), text.into_bytes())); }
    rep
}

fn wrapper_designspace(ufo_name: &str, skip_export: Option<&str>, with_instance: bool) -> String {
    let inst = if with_instance { "  <instances>\n    <instance name=\"Wrapped Text\" familyname=\"Wrapped\" stylename=\"Text\" postscriptfontname=\"Wrapped-Text\">\n      <location>\n        <dimension name=\"Weight\" xvalue=\"400\"/>\n      </location>\n    </instance>\n  </instances>\n" } else { "" };
    let lib = skip_export.map(|a| format!("  <lib>\n    <dict>\n      <key>public.skipExportGlyphs</key>\n{a}\n    </dict>\n  </lib>\n")).unwrap_or_default();
    // the designspace reader wants a location with at least one dimension: an axis whose minimum, default and
    // maximum coincide describes the same single-master design
    format!("<?xml version='1.0' encoding='UTF-8'?>\n<designspace format=\"4.1\">\n  <axes>\n    <axis tag=\"wght\" name=\"Weight\" minimum=\"400\" maximum=\"400\" default=\"400\"/>\n  </axes>\n  <sources>\n    <source filename=\"{ufo_name}\">\n      <location>\n        <dimension name=\"Weight\" xvalue=\"400\"/>\n      </location>\n    </source>\n  </sources>\n{inst}{lib}</designspace>\n")
}

/// the `<array>…</array>` value of public.skipExportGlyphs in a lib.plist, verbatim
fn skip_export_array(lib: &str) -> Option<String> {
    let k = lib.find("<key>public.skipExportGlyphs</key>")?;
    let rest = &lib[k..];
    let s = rest.find("<array")?;
    if rest[s..].starts_with("<array/>") { return Some("<array/>".into()); }
    let e = rest.find("</array>")?;
    Some(rest[s..e + 8].to_string())
}

fn reformat_ufo(dir: &Path, mode: &str) {
    fn walk(d: &Path, mode: &str) {
        let Ok(rd) = std::fs::read_dir(d) else { return };
        for e in rd.flatten() {
            let p = e.path();
            if p.is_dir() { walk(&p, mode); continue; }
            let ext = p.extension().and_then(|x| x.to_str()).unwrap_or("");
            let Ok(t) = std::fs::read_to_string(&p) else { continue };
            let new = match (mode, ext) {
                ("xml-attributes", "glif") => Some(reorder_xml_attributes(&t, "    ")),
                ("plist-keys", "plist") => reverse_plist_keys(&t),
                _ => None,
            };
            if let Some(n) = new { let _ = std::fs::write(&p, n); }
        }
    }
    walk(dir, mode);
}

pub fn check_ufo(ctx: &Ctx, genome: &[u16]) -> CaseReport {
    let mut rep = CaseReport::default();
    let mut g = Gen::new(genome);
    let fx = ufo_fixtures(ctx);
    let use_synth = fx.is_empty() || g.chance(1, 2);
    let variant = *g.pick(&["designspace-wrapper", "xml-attributes", "plist-keys", "cli"]);
    rep.class(format!("variant:{variant}"));
    let scratch = Scratch::new(&ctx.work);
    let (ufo_dir, name): (PathBuf, String) = if use_synth {
        // a static design: no axes, written as a lone UFO
        let p = Profile { min_axes: 0, max_axes: 0, max_glyphs: 10, min_glyphs: 2, outlines: true, cubic: true, components: 4, transforms: true, mixed: true, order_variety: true, non_export: true, multi_codepoints: true, ps_names: true, anchors: true, kerning: true, naming: true, vertical: true, ..Profile::base() };
        let f = SynthFont::decode(&genome[8.min(genome.len())..], &p);
        let mut files = ufo::render(&f);
        // a lib key read from the default master's own lib.plist: the design / supported languages of the `meta` table
        if genome.last().copied().unwrap_or(0) % 3 == 1 {
            if let Some(lib) = files.get_mut("M0.ufo/lib.plist") {
                let meta = "<key>public.openTypeMeta</key>\n<dict>\n<key>dlng</key>\n<array>\n<string>en-Latn</string>\n<string>tr-Latn</string>\n</array>\n<key>slng</key>\n<array>\n<string>Latn</string>\n</array>\n</dict>\n";
                if let Some(at) = lib.rfind("</dict>") { lib.insert_str(at, meta); rep.class("design:meta-table-languages-in-lib"); }
                else if lib.contains("<dict/>") { *lib = lib.replace("<dict/>", &format!("<dict>\n{meta}</dict>")); rep.class("design:meta-table-languages-in-lib"); }
            }
        }
        let root = scratch.path().join("orig");
        let path = ufo::write_tree(&root, &files).expect("write");
        rep.class("source:generated");
        rep.key = f.hash() ^ fnv_str(variant);
        rep.sample = Some(json!({"source": "generated", "variant": variant, "font": crate::props::c03::describe(&f)}));
        if !rep.artifacts.is_empty() { rep.artifacts.clear(); }
        for (k, v) in &files { rep.artifacts.push((k.clone(), v.clone().into_bytes())); }
        (path, "generated".into())
    } else {
        let path = &fx[g.below(fx.len())];
        let name = path.strip_prefix(&ctx.repo).unwrap_or(path).display().to_string();
        rep.class("source:fixture");
        rep.key = fnv_str(&format!("{name}{variant}"));
        rep.sample = Some(json!({"source": name, "variant": variant}));
        let dst = scratch.path().join("orig").join(path.file_name().unwrap());
        if copy_dir(path, &dst).is_err() { rep.discard = true; return rep; }
        // feature includes reach outside the UFO: keep the relative layout by copying the include targets' directory is
        // not attempted; such fixtures are counted and skipped
        if std::fs::read_to_string(dst.join("features.fea")).map(|t| t.contains("include(")).unwrap_or(false) { rep.class("skipped:feature-include"); rep.discard = true; return rep; }
        (dst, name)
    };
    if ctx.dry { return rep; }
    let opts = BuildOpts::default();
    let reference = compile_path(&ufo_dir, &opts);
    if reference.is_err() { rep.class("reference-route-fails"); }
    let ufo_name = ufo_dir.file_name().unwrap().to_string_lossy().to_string();
    let other = match variant {
        "cli" => run_cli(&fontc_dev(), &ufo_dir, &opts, &scratch.path().join("cli"), 4, false).map_err(BuildError::Reported),
        "designspace-wrapper" => {
            let lib = std::fs::read_to_string(ufo_dir.join("lib.plist")).unwrap_or_default();
            let ds = ufo_dir.parent().unwrap().join("wrapper.designspace");
            let with_instance = g.chance(1, 2);
            if with_instance { rep.class("wrapper-with-named-instance"); }
            std::fs::write(&ds, wrapper_designspace(&ufo_name, skip_export_array(&lib).as_deref(), with_instance)).unwrap();
            compile_path(&ds, &opts)
        }
        mode => {
            let dst = scratch.path().join("reformatted").join(&ufo_name);
            copy_dir(&ufo_dir, &dst).unwrap();
            reformat_ufo(&dst, mode);
            compile_path(&dst, &opts)
        }
    };
    std::fs::create_dir_all(scratch.path().join("cli")).ok();
    compare(&mut rep, &format!("ufo-vs-{variant}"), &reference, &other, variant != "cli");
    rep.nontrivial = reference.as_ref().map(|b| b.len() > 1500).unwrap_or(false);
    let _ = name;
    if rep.failures.is_empty() { rep.artifacts.clear(); }
    rep
}

pub fn parts() -> Vec<Part> {
    vec![
        Part { name: "glyphs", genome_len: 24, cases_quick: 700, cases_thorough: 6000, threads: 12, max_shrink_iters: 40, check: Box::new(check_glyphs), remote: None },
        Part { name: "ufo", genome_len: 2400, cases_quick: 700, cases_thorough: 8000, threads: 12, max_shrink_iters: 60, check: Box::new(check_ufo), remote: None },
    ]
}
pub const RULE: &str = "glyphs: every .glyphs fixture of the repository x one route: the same text passed in memory, split by the harness into a .glyphspackage (fontinfo.plist + order.plist + one file per glyph), re-emitted with other indentation / blank lines / spacing / CR LF line ends / a blank or tab after each line-ending ';' and ',', with every dictionary's keys shuffled, with identifier-like tokens quoted, or built by the fontc binary instead of the library; ufo: every .ufo fixture and generated static designs written as a lone UFO (a third with public.openTypeMeta languages in lib.plist) x one route: a designspace listing only that UFO at the single point of a min=default=max axis (its lib repeating public.skipExportGlyphs), XML attribute order reversed in every .glif, every plist dictionary's keys reversed, or the fontc binary. Bytes must be identical (for the binary: up to the compiler's own version stamp in name id 5), and a build error on one route must be an error on the other. non-trivial = the reference route builds a font of more than 1500 bytes";
pub const ASSUMPTIONS: &[&str] = &["sources whose feature code include()s other files are skipped and counted: text in memory or a copy elsewhere has no directory to resolve against (documented difference)", "Glyphs fixtures with duplicate glyph names cannot be represented as a package and are skipped for that route", "re-emitted Glyphs text keeps one key = value; statement per line and scalar lists on one line without spaces, as Glyphs writes them; numeric-looking tokens are never quoted", "the wrapper designspace repeats public.skipExportGlyphs, the key fontc documents as read from the designspace lib rather than the UFO lib"];
