//! ad-hoc probe: fontprobe <source path> [out.ttf] : compile with default options, dump glyph outlines
use read_fonts::{FontRef, TableProvider, types::GlyphId};
fn main() {
    let args: Vec<String> = std::env::args().collect();
    let input = fontc::Input::new(std::path::Path::new(&args[1])).unwrap();
    let bytes = fontc::generate_font(input.create_source().unwrap(), fontc::Options::default()).unwrap();
    if let Some(o) = args.get(2) { std::fs::write(o, &bytes).unwrap(); }
    let f = FontRef::new(&bytes).unwrap();
    let post = f.post().unwrap();
    let loca = f.loca(None).unwrap(); let glyf = f.glyf().unwrap();
    for gid in 0..f.maxp().unwrap().num_glyphs() {
        let name = post.glyph_name(read_fonts::types::GlyphId16::new(gid)).unwrap_or("?");
        match loca.get_glyf(GlyphId::new(gid as u32), &glyf).unwrap() {
            None => println!("{gid} {name}: empty"),
            Some(read_fonts::tables::glyf::Glyph::Simple(s)) => { println!("{gid} {name}: ends {:?}", s.end_pts_of_contours().iter().map(|e| e.get()).collect::<Vec<_>>()); for p in s.points() { print!(" ({},{},{})", p.x, p.y, if p.on_curve { "on" } else { "off" }); } println!(); }
            Some(read_fonts::tables::glyf::Glyph::Composite(c)) => { println!("{gid} {name}: composite"); for comp in c.components() { println!("   {:?}", comp); } }
        }
    }
}
