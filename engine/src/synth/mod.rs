pub mod build;
pub mod model;
pub mod ufo;
