//! C06 — The glyph set, glyph order and cmap are exactly what the source declares.
use crate::genome::{fnv_str, Gen};
use crate::ot::{Font, RawGlyph};
use crate::props::c03::{attach_source, build, classify, describe};
use crate::run::{CaseReport, Ctx, Part};
use crate::synth::build::BuildOpts;
use crate::synth::model::*;
use serde_json::json;
use std::collections::{BTreeMap, BTreeSet};

/// reference for the order the statement describes: declared names (first occurrence, existing
/// glyphs only), then undeclared names in byte order; non-export removed; .notdef first
pub fn expected_order(f: &SynthFont) -> Vec<String> {
    let names: BTreeSet<&str> = f.glyphs.iter().map(|g| g.name.as_str()).collect();
    let mut order: Vec<String> = vec![];
    if let Some(o) = &f.glyph_order { for n in o { if names.contains(n.as_str()) && !order.contains(n) { order.push(n.clone()); } } }
    let mut rest: Vec<String> = names.iter().filter(|n| !order.iter().any(|o| o == *n)).map(|s| s.to_string()).collect();
    rest.sort();
    order.extend(rest);
    order.retain(|n| f.glyph(n).map(|g| g.export).unwrap_or(false));
    order.retain(|n| n != ".notdef");
    order.insert(0, ".notdef".to_string());
    order
}

/// reference for production names: rename map, characters outside [A-Za-z0-9._] dropped, later
/// duplicates get the smallest unused ".N"
pub fn expected_post_names(order: &[String], rename: Option<&BTreeMap<String, String>>) -> Vec<String> {
    let Some(map) = rename else { return order.to_vec() };
    let mut used: BTreeSet<String> = BTreeSet::new();
    let mut out = vec![];
    for g in order {
        let mut name: String = map.get(g).unwrap_or(g).chars().filter(|c| c.is_ascii_alphanumeric() || *c == '.' || *c == '_').collect();
        if used.contains(&name) { let mut n = 1; while used.contains(&format!("{name}.{n}")) { n += 1; } name = format!("{name}.{n}"); }
        used.insert(name.clone());
        out.push(name);
    }
    out
}

pub fn check(ctx: &Ctx, genome: &[u16]) -> CaseReport {
    let mut rep = CaseReport::default();
    let mut g = Gen::new(genome);
    let mut og = g.fork(8);
    let opts = BuildOpts { no_production_names: og.chance(1, 3), no_prefer_simple: og.chance(1, 3), flatten: og.chance(1, 5), ..Default::default() };
    let f = SynthFont::decode(&genome[8.min(genome.len())..], &Profile::glyphset());
    rep.key = f.hash() ^ fnv_str(&opts.label());
    classify(&mut rep, &f);
    rep.sample = Some(json!({"options": opts.label(), "font": describe(&f), "ps_names": f.ps_names}));
    if ctx.dry { for (k, v) in crate::synth::ufo::render(&f) { rep.artifacts.push((k, v.into_bytes())); } return rep; }
    let Some(b) = build(ctx, &mut rep, f, &opts) else { return rep };
    let f = &b.font;
    let font = match Font::new(&b.bytes) { Ok(x) => x, Err(e) => { rep.fail("output-unparseable", e); attach_source(&mut rep, &b); return rep; } };
    let names = match font.glyph_names() { Ok(n) => n, Err(e) => { rep.fail("post-names-unreadable", e); attach_source(&mut rep, &b); return rep; } };
    let order = expected_order(f);
    let renaming = !opts.no_production_names && f.ps_names.is_some();
    rep.evals = names.len() as u64;
    // one-to-one
    let distinct: BTreeSet<&String> = names.iter().collect();
    if distinct.len() != names.len() { rep.fail("post-names-not-one-to-one", format!("{names:?}")); }
    // source glyphs first, in the expected order; derived glyphs only after them and only of the form <source name>.<n>
    let n_src = order.len();
    if names.len() < n_src { rep.fail("exported-glyph-missing", format!("expected {order:?} got {names:?}")); attach_source(&mut rep, &b); return rep; }
    let exp_names = expected_post_names(&order, if renaming { f.ps_names.as_ref() } else { None });
    if names[..n_src] != exp_names[..] {
        let sig = if names[0] != ".notdef" { "notdef-not-gid-0" } else if renaming && { let mut a = names[..n_src].to_vec(); a.sort(); let mut e = exp_names.clone(); e.sort(); a != e } { "production-names-differ" } else { "glyph-order-differs" };
        rep.fail(sig, format!("expected {exp_names:?} got {:?} (declared order {:?}, skip {:?})", &names[..n_src], f.glyph_order, f.skip_export));
    }
    let src_names: BTreeSet<&str> = f.glyphs.iter().map(|g| g.name.as_str()).collect();
    for extra in &names[n_src..] {
        let ok = extra.rsplit_once('.').map(|(base, n)| n.chars().all(|c| c.is_ascii_digit()) && !n.is_empty() && (src_names.contains(base) || renaming)).unwrap_or(false);
        if !ok { rep.fail("unexpected-extra-glyph", format!("{extra} in {names:?}")); }
        if opts.no_prefer_simple { rep.class("derived-glyph"); } else { rep.fail("derived-glyph-although-prefer-simple", extra.clone()); }
    }
    // non-export glyphs appear nowhere
    if !renaming { for s in &f.skip_export { if names.contains(s) { rep.fail("non-export-glyph-in-font", s.clone()); } } }
    // cmap: exactly the codepoints of exported glyphs
    match font.cmap() {
        Err(e) => rep.fail("cmap-unreadable", e),
        Ok(cmap) => {
            let mut expected: BTreeMap<u32, u32> = BTreeMap::new();
            for (i, n) in order.iter().enumerate() { if let Some(gl) = f.glyph(n) { for cp in &gl.codepoints { expected.insert(*cp, i as u32); } } }
            if cmap != expected {
                let missing: Vec<_> = expected.iter().filter(|(k, v)| cmap.get(k) != Some(v)).map(|(k, v)| format!("U+{k:04X}->{v}")).collect();
                let extra: Vec<_> = cmap.iter().filter(|(k, v)| expected.get(k) != Some(v)).map(|(k, v)| format!("U+{k:04X}->{v}")).collect();
                rep.fail("cmap-differs-from-source", format!("missing/wrong {missing:?}; unexpected {extra:?}"));
            }
            rep.evals += expected.len() as u64;
        }
    }
    // components reference only glyphs of the font (necessarily exported ones)
    for gid in 0..names.len() as u16 {
        if let Ok(RawGlyph::Composite { comps, .. }) = font.glyph(gid) { for c in comps { if c.gid as usize >= names.len() { rep.fail("component-outside-glyph-set", format!("{gid} -> {}", c.gid)); } } }
    }
    let declared_differs = f.glyph_order.as_ref().map(|o| { let mut s = o.clone(); s.sort(); &s != o }).unwrap_or(false);
    rep.nontrivial = declared_differs && !f.skip_export.is_empty();
    if f.glyph_order.is_some() { rep.class("declared-order"); }
    if f.glyphs.iter().any(|g| g.name == ".notdef") { rep.class("source-has-notdef"); if f.glyph_order.as_ref().map(|o| o.iter().position(|n| n == ".notdef").map(|p| p >= 2).unwrap_or(false)).unwrap_or(false) { rep.class("notdef-declared-third-or-later"); } }
    if renaming { rep.class("production-names"); }
    if f.glyphs.iter().any(|g| g.codepoints.len() > 1) { rep.class("multi-codepoint-glyph"); }
    attach_source(&mut rep, &b);
    rep
}

pub fn parts() -> Vec<Part> {
    vec![Part { name: "glyphset", genome_len: 1800, cases_quick: 1500, cases_thorough: 40000, threads: 12, max_shrink_iters: 300, check: Box::new(check), remote: None }]
}
pub const RULE: &str = "SynthFont glyph-set profile (0-1 axes, 1-14 glyphs from a name pool incl. unencoded / suffixed / supplementary-plane glyphs, optional source .notdef at any position, public.glyphOrder = permutation of a subset with unknown and duplicate names, skipExportGlyphs, several codepoints per glyph, public.postscriptNames with duplicate / non-ASCII / unique targets) x {production names, prefer-simple, flatten}; oracle: post names == reference order (declared first, undeclared in byte order, non-export removed, .notdef first) mapped through the reference rename (+.N) when renaming is on; names one-to-one; derived glyphs only after all source glyphs and only '<name>.<n>'; cmap == exactly the model's pairs. non-trivial = declared order differs from sorted order and >=1 non-export glyph; distinct = hash(model, options)";
pub const ASSUMPTIONS: &[&str] = &["codepoints are unique across glyphs by construction (duplicates make the statement contradictory)", "the production-name reference is the documented rule: rename map, drop characters outside [A-Za-z0-9._], later duplicates get the smallest unused .N"];
