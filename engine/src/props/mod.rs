pub mod c07;
pub mod c13;
