//! Minimal reader / writer for the ASCII ("old style") property lists Glyphs files use. Leaf values keep
//! their raw token text, so re-emitting changes only what the emitter is asked to change: whitespace,
//! indentation, blank lines, dictionary key order, quoting of identifier-like tokens. Also splits a
//! .glyphs file into the files of a .glyphspackage.
use crate::genome::Gen;

#[derive(Clone, Debug, PartialEq)]
pub enum V { Dict(Vec<(String, V)>), Array(Vec<V>), Atom(String) }

struct P<'a> { s: &'a [u8], i: usize }

impl<'a> P<'a> {
    fn ws(&mut self) {
        loop {
            while self.i < self.s.len() && (self.s[self.i] as char).is_whitespace() { self.i += 1; }
            if self.s[self.i..].starts_with(b"/*") { match find(&self.s[self.i + 2..], b"*/") { Some(e) => self.i += 2 + e + 2, None => { self.i = self.s.len(); } } continue; }
            if self.s[self.i..].starts_with(b"//") { while self.i < self.s.len() && self.s[self.i] != b'\n' { self.i += 1; } continue; }
            break;
        }
    }
    fn atom(&mut self) -> Result<String, String> {
        self.ws();
        let start = self.i;
        if self.i >= self.s.len() { return Err("unexpected end".into()); }
        if self.s[self.i] == b'"' {
            self.i += 1;
            while self.i < self.s.len() && self.s[self.i] != b'"' { if self.s[self.i] == b'\\' { self.i += 1; } self.i += 1; }
            if self.i >= self.s.len() { return Err("unterminated string".into()); }
            self.i += 1;
        } else {
            while self.i < self.s.len() && !matches!(self.s[self.i], b';' | b',' | b')' | b'}' | b'=' | b'(' | b'{') && !(self.s[self.i] as char).is_whitespace() { self.i += 1; }
            if self.i == start { return Err(format!("unexpected {:?} at {}", self.s[self.i] as char, self.i)); }
        }
        Ok(String::from_utf8_lossy(&self.s[start..self.i]).to_string())
    }
    fn value(&mut self, depth: usize) -> Result<V, String> {
        if depth > 200 { return Err("too deep".into()); }
        self.ws();
        match self.s.get(self.i) {
            Some(b'{') => {
                self.i += 1;
                let mut items = vec![];
                loop {
                    self.ws();
                    if self.s.get(self.i) == Some(&b'}') { self.i += 1; break; }
                    let k = self.atom()?;
                    self.ws();
                    if self.s.get(self.i) != Some(&b'=') { return Err(format!("expected = after key {k} at {}", self.i)); }
                    self.i += 1;
                    let v = self.value(depth + 1)?;
                    self.ws();
                    if self.s.get(self.i) != Some(&b';') { return Err(format!("expected ; after value of {k} at {}", self.i)); }
                    self.i += 1;
                    items.push((k, v));
                }
                Ok(V::Dict(items))
            }
            Some(b'(') => {
                self.i += 1;
                let mut items = vec![];
                loop {
                    self.ws();
                    if self.s.get(self.i) == Some(&b')') { self.i += 1; break; }
                    items.push(self.value(depth + 1)?);
                    self.ws();
                    match self.s.get(self.i) { Some(b',') => self.i += 1, Some(b')') => {} _ => return Err(format!("expected , or ) at {}", self.i)) }
                }
                Ok(V::Array(items))
            }
            Some(b'<') => { // data
                let start = self.i; while self.i < self.s.len() && self.s[self.i] != b'>' { self.i += 1; } self.i += 1;
                Ok(V::Atom(String::from_utf8_lossy(&self.s[start..self.i.min(self.s.len())]).to_string()))
            }
            _ => Ok(V::Atom(self.atom()?)),
        }
    }
}

fn find(h: &[u8], n: &[u8]) -> Option<usize> { h.windows(n.len()).position(|w| w == n) }

pub fn parse(text: &str) -> Result<V, String> {
    let mut p = P { s: text.as_bytes(), i: 0 };
    let v = p.value(0)?;
    p.ws();
    if p.i < p.s.len() { return Err(format!("trailing content at {}", p.i)); }
    Ok(v)
}

#[derive(Clone, Debug, Default)]
pub struct Style { pub indent: usize, pub blank_lines: bool, pub shuffle_keys: bool, pub quote_identifiers: bool, pub spaces_around_eq: usize, pub seed: u64,
    /// line ends are CR LF
    pub crlf: bool,
    /// 1: a space, 2: a tab after every `;` and `,` that ends a line
    pub trailing: u8 }

fn is_identifier(a: &str) -> bool {
    // letters first, then letters / digits / _ . -: never something that could be read as a number
    let mut c = a.chars();
    match c.next() { Some(ch) if ch.is_ascii_alphabetic() => {} _ => return false }
    a.chars().all(|ch| ch.is_ascii_alphanumeric() || ch == '_') && !matches!(a, "nan" | "inf" | "infinity" | "NaN")
}

fn emit_atom(a: &str, st: &Style, out: &mut String) {
    if st.quote_identifiers && is_identifier(a) { out.push('"'); out.push_str(a); out.push('"'); } else { out.push_str(a); }
}

fn all_atoms(v: &[V]) -> bool { v.iter().all(|x| matches!(x, V::Atom(_))) }

fn emit(v: &V, st: &Style, level: usize, out: &mut String, rng: &mut u64) {
    let pad = " ".repeat(st.indent * level);
    let eol = if st.crlf { "\r\n" } else { "\n" };
    let trail = match st.trailing { 1 => " ", 2 => "\t", _ => "" };
    match v {
        V::Atom(a) => emit_atom(a, st, out),
        V::Array(items) => {
            // scalar lists stay on one line without spaces (the shape `unicode = (45,8208);` has in real files)
            if all_atoms(items) && items.len() <= 8 && items.iter().all(|x| matches!(x, V::Atom(a) if !a.starts_with('"'))) { out.push('('); for (i, x) in items.iter().enumerate() { if i > 0 { out.push(','); } if let V::Atom(a) = x { out.push_str(a); } } out.push(')'); return; }
            out.push('('); out.push_str(eol);
            for (i, x) in items.iter().enumerate() { out.push_str(&" ".repeat(st.indent * (level + 1))); emit(x, st, level + 1, out, rng); if i + 1 < items.len() { out.push(','); out.push_str(trail); } out.push_str(eol); }
            out.push_str(&pad); out.push(')');
        }
        V::Dict(items) => {
            out.push('{'); out.push_str(eol);
            let mut order: Vec<usize> = (0..items.len()).collect();
            if st.shuffle_keys { for i in (1..order.len()).rev() { *rng = rng.wrapping_mul(6364136223846793005).wrapping_add(1442695040888963407); let j = ((*rng >> 33) as usize) % (i + 1); order.swap(i, j); } }
            for i in order {
                let (k, x) = &items[i];
                if st.blank_lines && i % 3 == 1 { out.push_str(eol); }
                out.push_str(&" ".repeat(st.indent * (level + 1)));
                emit_atom(k, st, out);
                out.push_str(&" ".repeat(st.spaces_around_eq)); out.push('='); out.push_str(&" ".repeat(st.spaces_around_eq));
                emit(x, st, level + 1, out, rng);
                out.push(';'); out.push_str(trail); out.push_str(eol);
            }
            out.push_str(&pad); out.push('}');
        }
    }
}

pub fn to_text(v: &V, st: &Style) -> String { let mut s = String::new(); let mut rng = st.seed | 1; emit(v, st, 0, &mut s, &mut rng); s.push_str(if st.crlf { "\r\n" } else { "\n" }); s }

pub fn style_from(g: &mut Gen, what: &str) -> Style {
    let base = Style { indent: 0, blank_lines: false, shuffle_keys: false, quote_identifiers: false, spaces_around_eq: 1, seed: g.word() as u64 * 65537 + 12345, crlf: false, trailing: 0 };
    match what {
        "whitespace" => Style { indent: g.below(5), blank_lines: g.chance(1, 2), spaces_around_eq: 1 + g.below(3), crlf: g.chance(1, 3), trailing: [0u8, 1, 2][g.below(3)], ..base },
        "key-order" => Style { shuffle_keys: true, ..base },
        "quoting" => Style { quote_identifiers: true, ..base },
        _ => base,
    }
}

fn unquote(a: &str) -> String { if a.len() >= 2 && a.starts_with('"') && a.ends_with('"') { a[1..a.len() - 1].replace("\\\"", "\"").replace("\\\\", "\\") } else { a.to_string() } }

/// files of the .glyphspackage equivalent of a parsed .glyphs file: (relative path, text).
/// None when the file has no glyphs array or two glyphs share a name (a package cannot hold those).
pub fn split_package(v: &V) -> Option<Vec<(String, String)>> {
    let V::Dict(items) = v else { return None };
    let st = Style { indent: 0, spaces_around_eq: 1, ..Default::default() };
    let mut out = vec![];
    let mut names: Vec<String> = vec![];
    let mut info = vec![];
    for (k, x) in items {
        if unquote(k) == "glyphs" {
            let V::Array(gl) = x else { return None };
            for (i, g) in gl.iter().enumerate() {
                let V::Dict(gi) = g else { return None };
                let name = gi.iter().find(|(k, _)| unquote(k) == "glyphname").and_then(|(_, v)| if let V::Atom(a) = v { Some(a.clone()) } else { None })?;
                if names.contains(&name) { return None; }
                names.push(name);
                out.push((format!("glyphs/g{i:04}.glyph"), to_text(g, &st)));
            }
        } else { info.push((k.clone(), x.clone())); }
    }
    out.push(("fontinfo.plist".to_string(), to_text(&V::Dict(info), &st)));
    let mut order = String::from("(\n");
    for (i, n) in names.iter().enumerate() { order.push_str(n); if i + 1 < names.len() { order.push(','); } order.push('\n'); }
    order.push_str(")\n");
    out.push(("order.plist".to_string(), order));
    Some(out)
}
