//! C14 — Writing intermediate state to disk is transparent and faithful.
//! Part "names": injectivity of the glyph-name -> file-name mapping (pure).
//! Part "kernloc": injectivity of kerning-location -> file-name (pure).
//! (Parts that build fonts with and without --emit-ir are in c14_build.)
use crate::genome::{fnv_str, Gen};
use crate::run::{CaseReport, Ctx, Part};
use fontdrasil::coords::{NormalizedCoord, NormalizedLocation};
use fontdrasil::paths::string_to_filename;
use fontir::orchestration::WorkId as FeWorkId;
use serde_json::json;
use std::path::Path;
use write_fonts::types::Tag;

const NAME_ALPHABET: &[&str] = &["a", "b", "A", "B", "e", "E", "f", "F", "x", "Z", "0", "1", "2", "5", "9", ".", "_", "-", " ", "%", "^", "\"", "*", "+", "/", ":", "<", ">", "?", "[", "\\", "]", "|",
    "\u{1}", "\u{7f}", "é", "É", "ß", "中", "\u{1F600}", "%22", "%2E", "^1", "^0", "con", "CON", "nul", "aux", "com1", "LPT1", "clock$", ".notdef", "a.alt", "A.sc", "f_i", "uni0041"];

fn gen_name(g: &mut Gen) -> String {
    let n = 1 + g.below(7);
    (0..n).map(|_| *g.pick(NAME_ALPHABET)).collect()
}

fn mutate_name(g: &mut Gen, s: &str) -> String {
    let chars: Vec<char> = s.chars().collect();
    if chars.is_empty() { return "a".into(); }
    let i = g.below(chars.len());
    let mut out: Vec<String> = chars.iter().map(|c| c.to_string()).collect();
    match g.below(8) {
        0 => { let c = chars[i]; out[i] = if c.is_ascii_lowercase() { c.to_ascii_uppercase().to_string() } else { c.to_ascii_lowercase().to_string() }; }
        1 => { out[i] = format!("%{:02X}", chars[i] as u32); }               // the escaped spelling of the same char
        2 => { out.push(format!("^{}", ["0", "1", "2", "3", "G", "V"][g.below(6)])); } // looks like a case code
        3 => { out.insert(i, g.pick(NAME_ALPHABET).to_string()); }
        4 => { out.remove(i); }
        5 => { for o in out.iter_mut() { *o = o.to_ascii_uppercase(); } }
        6 => { for o in out.iter_mut() { *o = o.to_ascii_lowercase(); } }
        _ => { out[i] = g.pick(NAME_ALPHABET).to_string(); }
    }
    out.concat()
}

pub fn check_names(_ctx: &Ctx, genome: &[u16]) -> CaseReport {
    let mut g = Gen::new(genome);
    let mut rep = CaseReport::default();
    let a = gen_name(&mut g);
    let related = g.chance(3, 4);
    let b = if related { let mut b = mutate_name(&mut g, &a); if g.chance(1, 4) { b = mutate_name(&mut g, &b); } b } else { gen_name(&mut g) };
    if a == b || a.is_empty() || b.is_empty() { rep.discard = true; return rep; }
    for suffix in [".yml", ".glyf", ".gvar"] {
        let fa = string_to_filename(&a, suffix);
        let fb = string_to_filename(&b, suffix);
        rep.evals += 1;
        if fa == fb { rep.fail("distinct-names-same-file", format!("{a:?} and {b:?} both map to {fa:?}")); break; }
        if fa.to_ascii_lowercase() == fb.to_ascii_lowercase() {
            rep.fail("distinct-names-same-file-ignoring-ascii-case", format!("{a:?} -> {fa:?}, {b:?} -> {fb:?}")); break;
        }
        if fa.contains('/') || fa.contains('\0') || fa == "." || fa == ".." { rep.fail("file-name-not-a-plain-component", format!("{a:?} -> {fa:?}")); break; }
    }
    // the IR paths derived from it must differ too
    let d = Path::new("/b");
    let pa = fontir::paths::Paths::target_file(d, &FeWorkId::Glyph(a.as_str().into()));
    let pb = fontir::paths::Paths::target_file(d, &FeWorkId::Glyph(b.as_str().into()));
    if pa == pb { rep.fail("distinct-glyphs-same-ir-path", format!("{a:?} {b:?} -> {pa:?}")); }
    let ba = fontbe::paths::Paths::target_file(d, &fontbe::orchestration::WorkId::GlyfFragment(a.as_str().into()));
    let bb = fontbe::paths::Paths::target_file(d, &fontbe::orchestration::WorkId::GlyfFragment(b.as_str().into()));
    if ba == bb { rep.fail("distinct-glyphs-same-be-path", format!("{a:?} {b:?} -> {ba:?}")); }
    let plain = |s: &str| s.chars().all(|c| c.is_ascii_lowercase() || c.is_ascii_digit() || c == '.' || c == '_') && !s.starts_with('.');
    rep.nontrivial = !plain(&a) || !plain(&b);
    if a.eq_ignore_ascii_case(&b) { rep.class("differ-only-by-ascii-case"); }
    if related { rep.class("related-pair"); } else { rep.class("independent-pair"); }
    if a.contains('%') || b.contains('%') { rep.class("contains-percent"); }
    rep.key = fnv_str(&format!("{a}\u{0}{b}"));
    rep.sample = Some(json!({"a": a, "b": b, "file_a": string_to_filename(&a, ".yml"), "file_b": string_to_filename(&b, ".yml")}));
    rep
}

const TAGS: [&str; 3] = ["wght", "wdth", "opsz"];

pub fn check_kernloc(_ctx: &Ctx, genome: &[u16]) -> CaseReport {
    let mut g = Gen::new(genome);
    let mut rep = CaseReport::default();
    let n_axes = 1 + g.below(3);
    let coord = |g: &mut Gen| -> f64 {
        match g.below(3) { 0 => [0.0, 1.0, -1.0, 0.5, -0.5, 0.25][g.below(6)], 1 => (g.range(-16384, 16384) as f64) / 16384.0, _ => (g.range(-1000, 1000) as f64) / 1000.0 }
    };
    let a: Vec<f64> = (0..n_axes).map(|_| coord(&mut g)).collect();
    let close = g.chance(2, 3);
    let b: Vec<f64> = if close {
        // a nearby distinct location: move one axis by a small step
        let mut b = a.clone(); let i = g.below(n_axes);
        let step = [1.0 / 16384.0, 0.001, 0.003, 0.004, 0.01, 0.1][g.below(6)] * if g.chance(1, 2) { 1.0 } else { -1.0 };
        b[i] = (b[i] + step).clamp(-1.0, 1.0); b
    } else { (0..n_axes).map(|_| coord(&mut g)).collect() };
    if a == b { rep.discard = true; return rep; }
    let loc = |v: &[f64]| -> NormalizedLocation { v.iter().enumerate().map(|(i, x)| (Tag::new(TAGS[i].as_bytes().try_into().unwrap()), NormalizedCoord::new(*x))).collect() };
    let d = Path::new("/b");
    let pa = fontir::paths::Paths::target_file(d, &FeWorkId::KernInstance(loc(&a)));
    let pb = fontir::paths::Paths::target_file(d, &FeWorkId::KernInstance(loc(&b)));
    rep.evals = 1;
    if pa == pb { rep.fail("distinct-kerning-locations-same-file", format!("{a:?} and {b:?} both map to {pa:?}")); }
    let maxdiff = a.iter().zip(&b).map(|(x, y)| (x - y).abs()).fold(0.0, f64::max);
    rep.nontrivial = maxdiff < 0.05;
    rep.class(if maxdiff < 0.005 { "closer-than-0.005" } else if maxdiff < 0.05 { "closer-than-0.05" } else { "far" });
    rep.key = fnv_str(&format!("{a:?}{b:?}"));
    rep.sample = Some(json!({"a": a, "b": b, "file_a": pa.display().to_string(), "file_b": pb.display().to_string()}));
    rep
}

/// stored literal cases: {"kind":"kernloc","a":[..],"b":[..]} or {"kind":"names","a":"..","b":".."}
pub fn check_literal(_ctx: &Ctx, v: &serde_json::Value) -> CaseReport {
    let mut rep = CaseReport::default();
    let d = Path::new("/b");
    match v["kind"].as_str() {
        Some("kernloc") => {
            let f = |k: &str| -> Vec<f64> { v[k].as_array().map(|a| a.iter().filter_map(|x| x.as_f64()).collect()).unwrap_or_default() };
            let (a, b) = (f("a"), f("b"));
            let loc = |v: &[f64]| -> NormalizedLocation { v.iter().enumerate().map(|(i, x)| (Tag::new(TAGS[i].as_bytes().try_into().unwrap()), NormalizedCoord::new(*x))).collect() };
            let pa = fontir::paths::Paths::target_file(d, &FeWorkId::KernInstance(loc(&a)));
            let pb = fontir::paths::Paths::target_file(d, &FeWorkId::KernInstance(loc(&b)));
            if a != b && pa == pb { rep.fail("distinct-kerning-locations-same-file", format!("{a:?} and {b:?} both map to {pa:?}")); }
        }
        Some("names") => {
            let (a, b) = (v["a"].as_str().unwrap_or(""), v["b"].as_str().unwrap_or(""));
            if a != b && string_to_filename(a, ".yml").to_ascii_lowercase() == string_to_filename(b, ".yml").to_ascii_lowercase() {
                rep.fail("distinct-names-same-file", format!("{a:?} and {b:?} both map to {:?}", string_to_filename(a, ".yml")));
            }
        }
        _ => rep.fail("bad-literal", "unknown kind"),
    }
    rep.evals = 1;
    rep
}

pub fn pure_parts() -> Vec<Part> {
    vec![
        Part { name: "names", genome_len: 40, cases_quick: 200_000, cases_thorough: 5_000_000, threads: 16, max_shrink_iters: 2000, check: Box::new(check_names), remote: None },
        Part { name: "kernloc", genome_len: 24, cases_quick: 50_000, cases_thorough: 2_000_000, threads: 16, max_shrink_iters: 2000, check: Box::new(check_kernloc), remote: None },
    ]
}

pub const RULE: &str = "names: pairs of distinct glyph names built from an alphabet of case variants, reserved characters, '%XX' / '^N' look-alikes, device names and Unicode (3/4 related by one or two edits: case flip, escaped spelling, case-code suffix, insert/delete/replace); kernloc: pairs of distinct normalized locations on 1-3 axes, 2/3 differing by a small step (2^-14 .. 0.1) on one axis; oracle: distinct inputs map to distinct file names (also ASCII case-folded for names). non-trivial = a name outside [a-z0-9._] / locations closer than 0.05; distinct = hash of the pair";
pub const ASSUMPTIONS: &[&str] = &["case-insensitive collisions are checked for ASCII case folding only (Unicode case folding of the file system is out of scope)"];
