//! SynthFont: an in-memory design model decoded deterministically from a genome. Oracle values
//! (master outlines, advances, kerning, anchors, names, axis maps) are read from this model,
//! never from fontc's IR.
use crate::genome::{fnv_str, Gen};
use std::collections::{BTreeMap, BTreeSet};

#[derive(Clone, Debug)]
pub struct Axis {
    pub name: String,
    pub tag: String,
    /// design space: default, extent below (0 = default at min), extent above (0 = default at max)
    pub d_default: f64,
    pub d_below: f64,
    pub d_above: f64,
    /// user -> design nodes (always contains min, default, max); None = identity
    pub map: Option<Vec<(f64, f64)>>,
    pub hidden: bool,
    pub label: Option<String>,
    /// labels in other languages: (xml:lang, text)
    pub other_labels: Vec<(String, String)>,
}

impl Axis {
    pub fn is_point(&self) -> bool { self.d_below == 0.0 && self.d_above == 0.0 }
    pub fn d_min(&self) -> f64 { self.d_default - self.d_below }
    pub fn d_max(&self) -> f64 { self.d_default + self.d_above }
    pub fn norm_to_design(&self, n: f64) -> f64 {
        if n >= 0.0 { self.d_default + n * self.d_above } else { self.d_default + n * self.d_below }
    }
    pub fn design_to_norm(&self, d: f64) -> f64 {
        if d >= self.d_default { if self.d_above == 0.0 { 0.0 } else { (d - self.d_default) / self.d_above } }
        else if self.d_below == 0.0 { 0.0 } else { (d - self.d_default) / self.d_below }
    }
    /// reference user -> design map: piecewise linear through the nodes (independent of fontc)
    pub fn user_to_design(&self, u: f64) -> f64 {
        match &self.map {
            None => u,
            Some(nodes) => {
                let mut n = nodes.clone();
                n.sort_by(|a, b| a.0.partial_cmp(&b.0).unwrap());
                if u <= n[0].0 { return n[0].1; }
                for w in n.windows(2) {
                    let ((u0, d0), (u1, d1)) = (w[0], w[1]);
                    if u <= u1 { return if u1 == u0 { d1 } else { d0 + (u - u0) / (u1 - u0) * (d1 - d0) }; }
                }
                n[n.len() - 1].1
            }
        }
    }
    pub fn design_to_user_at_node(&self, d: f64) -> f64 {
        match &self.map { None => d, Some(nodes) => nodes.iter().find(|(_, dd)| *dd == d).map(|(u, _)| *u).unwrap_or(d) }
    }
    pub fn u_min(&self) -> f64 { self.design_to_user_at_node(self.d_min()) }
    pub fn u_default(&self) -> f64 { self.design_to_user_at_node(self.d_default) }
    pub fn u_max(&self) -> f64 { self.design_to_user_at_node(self.d_max()) }
}

#[derive(Clone, Debug, PartialEq)]
pub enum PtType { Move, Line, Off, Curve, QCurve }

#[derive(Clone, Debug)]
pub struct Pt { pub x: f64, pub y: f64, pub typ: PtType }

#[derive(Clone, Debug)]
pub struct Contour { pub pts: Vec<Pt> }

#[derive(Clone, Debug)]
pub struct Comp { pub base: String, pub xf: [f64; 6] }

#[derive(Clone, Debug, Default)]
pub struct GlyphSource {
    pub advance: f64,
    pub height: Option<f64>,
    pub contours: Vec<Contour>,
    pub comps: Vec<Comp>,
    pub anchors: Vec<(String, f64, f64)>,
}

#[derive(Clone, Debug, PartialEq, Eq)]
pub enum OutlineKind { Empty, Line, Quad, Cubic }

#[derive(Clone, Debug)]
pub struct Glyph {
    pub name: String,
    pub codepoints: Vec<u32>,
    pub export: bool,
    pub category: Option<&'static str>,
    pub kind: OutlineKind,
    /// source index (into SynthFont::sources) -> drawing
    pub sources: BTreeMap<usize, GlyphSource>,
}

#[derive(Clone, Debug, Default)]
pub struct Kerning {
    /// group name (with public.kern1./public.kern2. prefix) -> members
    pub groups: BTreeMap<String, Vec<String>>,
    /// (side1, side2) -> value
    pub pairs: BTreeMap<(String, String), f64>,
}

#[derive(Clone, Debug, Default)]
pub struct FontInfo {
    pub family: Option<String>,
    pub style: Option<String>,
    pub style_map_family: Option<String>,
    pub style_map_style: Option<&'static str>,
    pub preferred_family: Option<String>,
    pub preferred_subfamily: Option<String>,
    pub postscript_font_name: Option<String>,
    pub version_major: Option<i64>,
    pub version_minor: Option<i64>,
    pub ascender: Option<f64>,
    pub descender: Option<f64>,
    pub x_height: Option<f64>,
    pub cap_height: Option<f64>,
    pub italic_angle: Option<f64>,
    /// fontinfo key -> value for the MVAR-tagged metrics set explicitly
    pub metrics: BTreeMap<&'static str, f64>,
    /// openTypeOS2UnicodeRanges / openTypeOS2CodePageRanges: None = key absent, Some(vec![]) = explicitly empty
    pub os2_unicode_ranges: Option<Vec<u32>>,
    pub os2_codepage_ranges: Option<Vec<u32>>,
    /// openTypeNameRecords (Windows / Unicode BMP / en-US): (name id, string)
    pub name_records: Vec<(u16, String)>,
}

#[derive(Clone, Debug)]
pub struct Source {
    pub name: String,
    pub ufo: String,
    /// Some(layer name) = glyph-only (sparse) source stored as a layer of `ufo`
    pub layer: Option<String>,
    pub norm: Vec<f64>,
    pub info: FontInfo,
    pub kerning: Option<Kerning>,
}

#[derive(Clone, Debug)]
pub struct Instance { pub family: Option<String>, pub style: Option<String>, pub name: Option<String>, pub ps_name: Option<String>, pub norm: Vec<f64>,
    /// leave out the <dimension> of axes on which the instance sits at the default (valid: a missing dimension means the axis default)
    pub omit_default_dims: bool }

#[derive(Clone, Debug)]
pub struct Rule { pub name: String, pub condition_sets: Vec<Vec<(usize, Option<f64>, Option<f64>)>>, pub subs: Vec<(String, String)> }

#[derive(Clone, Debug)]
pub struct SynthFont {
    pub upem: u16,
    pub axes: Vec<Axis>,
    pub sources: Vec<Source>, // [0] is the default master
    pub glyphs: Vec<Glyph>,
    pub glyph_order: Option<Vec<String>>,
    pub skip_export: Vec<String>,
    pub ps_names: Option<BTreeMap<String, String>>,
    pub categories_explicit: bool,
    pub features: Option<String>,
    pub instances: Vec<Instance>,
    pub rules: Vec<Rule>,
    pub rules_processing_last: bool,
    pub lib_filters: Vec<&'static str>,
}

#[derive(Clone, Debug)]
pub struct Profile {
    pub min_axes: usize,
    pub max_axes: usize,
    pub max_glyphs: usize,
    pub min_glyphs: usize,
    pub outlines: bool,       // false: tiny boxes only
    pub cubic: bool,
    pub components: u32,      // weight 0..10
    pub transforms: bool,     // non-trivial 2x2
    pub mixed: bool,          // contours + components in one glyph
    pub sparse: u32,          // weight of sparse glyphs / layer sources
    pub order_variety: bool,  // glyphOrder permutations, unknown names, .notdef placement
    pub non_export: bool,
    pub metrics_class_a: bool, // explicit MVAR metrics in every master
    pub vertical: bool,
    pub half_coords: bool,
    pub maps: bool,
    pub awkward_axes: bool,
    pub multi_codepoints: bool,
    pub ps_names: bool,
    pub anchors: bool,
    pub kerning: bool,
    pub instances: bool,
    pub flat_maps: bool,
    /// add an axis with minimum == default == maximum (kept in the source, not part of fvar)
    pub point_axis: bool,
    /// glyph names that stress file-name mapping: case variants, reserved characters, device names
    pub weird_names: bool,
    /// only Latin / common-script names from the pool (one script, left to right)
    pub latin_only: bool,
    /// designspace <rules>
    pub rules: bool,
    /// naming facet: missing legacy names, non-RIBBI styles, colliding instance names, axis labels
    pub naming: bool,
    /// explicit (possibly empty) OS/2 unicode / code page range lists in fontinfo
    pub os2_ranges: bool,
}

impl Profile {
    /// every facet off
    pub fn base() -> Profile {
        Profile { min_axes: 0, max_axes: 0, max_glyphs: 1, min_glyphs: 1, outlines: false, cubic: false, components: 0, transforms: false, mixed: false, sparse: 0,
            order_variety: false, non_export: false, metrics_class_a: false, vertical: false, half_coords: false, maps: false, awkward_axes: false, multi_codepoints: false, ps_names: false, anchors: false, kerning: false, instances: false, flat_maps: false, point_axis: false, weird_names: false,
            latin_only: false, rules: false, naming: false, os2_ranges: false }
    }
    pub fn outlines() -> Profile {
        Profile { min_axes: 1, max_axes: 3, max_glyphs: 8, min_glyphs: 2, outlines: true, cubic: true, components: 4, transforms: true, mixed: true, sparse: 3,
            order_variety: false, non_export: true, metrics_class_a: true, vertical: true, half_coords: true, maps: true, awkward_axes: false, multi_codepoints: false, ps_names: false, anchors: false, kerning: false, instances: false, flat_maps: false, point_axis: false, weird_names: false, ..Profile::base() }
    }
    pub fn glyphset() -> Profile {
        Profile { min_axes: 0, max_axes: 1, max_glyphs: 14, min_glyphs: 1, outlines: false, cubic: false, components: 4, transforms: false, mixed: true, sparse: 0,
            order_variety: true, non_export: true, metrics_class_a: false, vertical: false, half_coords: false, maps: false, awkward_axes: false, multi_codepoints: true, ps_names: true, anchors: false, kerning: false, instances: false, flat_maps: false, point_axis: false, weird_names: false, ..Profile::base() }
    }
}

pub const NAME_POOL: &[(&str, u32)] = &[
    ("A", 0x41), ("B", 0x42), ("C", 0x43), ("a", 0x61), ("b", 0x62), ("c", 0x63), ("e", 0x65), ("f", 0x66), ("i", 0x69), ("o", 0x6F),
    ("space", 0x20), ("period", 0x2E), ("hyphen", 0x2D), ("zero", 0x30), ("one", 0x31), ("Aacute", 0xC1), ("eacute", 0xE9), ("f_i", 0), ("A.alt", 0),
    ("a.sc", 0), ("e.001", 0), ("uni0416", 0x416), ("u1F600", 0x1F600), ("u10330", 0x10330), ("acutecomb", 0x301), ("gravecomb", 0x300), ("dotbelowcomb", 0x323),
    ("Omega", 0x3A9), ("alpha", 0x3B1), ("nbspace", 0xA0), ("bar", 0x7C), ("plus", 0x2B), ("zzz", 0), ("_part", 0), ("B.alt", 0), ("o.alt", 0),
];

fn dy(g: &mut Gen, lo: i64, hi: i64, half: bool) -> f64 {
    let v = g.range(lo * 2, hi * 2);
    if half { v as f64 / 2.0 } else { (v / 2) as f64 }
}

impl SynthFont {
    pub fn is_variable(&self) -> bool { self.axes.iter().any(|a| !a.is_point()) }
    /// normalized coordinates as the font sees them: point axes are not part of fvar
    pub fn font_coords(&self, norm: &[f64]) -> Vec<f64> { norm.iter().zip(&self.axes).filter(|(_, a)| !a.is_point()).map(|(n, _)| crate::ot::f2(*n)).collect() }
    pub fn var_axes(&self) -> Vec<&Axis> { self.axes.iter().filter(|a| !a.is_point()).collect() }
    pub fn full_sources(&self) -> impl Iterator<Item = (usize, &Source)> { self.sources.iter().enumerate().filter(|(_, s)| s.layer.is_none()) }
    pub fn glyph(&self, name: &str) -> Option<&Glyph> { self.glyphs.iter().find(|g| g.name == name) }
    pub fn design_loc(&self, si: usize) -> Vec<f64> { self.sources[si].norm.iter().zip(&self.axes).map(|(n, a)| a.norm_to_design(*n)).collect() }
    pub fn hash(&self) -> u64 { fnv_str(&format!("{:?}", self)) }

    pub fn decode(genome: &[u16], p: &Profile) -> SynthFont {
        let mut g = Gen::new(genome);
        // late knobs read from the last word so that they do not shift the meaning of any other word
        let knob = genome.last().copied().unwrap_or(0);
        let small_jitter = p.outlines && knob % 4 == 1;      // masters differ from a scaled default by at most 2 units per point
        let big_upem = p.outlines && (knob / 4) % 4 == 1;    // 4096 units per em
        let mut h = g.fork(24);
        let n_axes = p.min_axes + h.below(p.max_axes - p.min_axes + 1);
        let upem = *h.pick(&[1000u16, 1000, 2048, 1024, 500]);
        let half = p.half_coords && h.chance(1, 4);
        let want_layers = p.sparse > 0 && h.chance(p.sparse, 10);
        let want_sparse_glyphs = p.sparse > 0 && h.chance(p.sparse, 10);
        let vertical = p.vertical && h.chance(1, 4);
        let explicit_notdef = h.chance(1, 3);
        let metrics_a = p.metrics_class_a && h.chance(1, 2);
        let n_glyphs = p.min_glyphs + h.below(p.max_glyphs - p.min_glyphs + 1);
        let extra_masters = h.below(5);
        let use_order = p.order_variety && h.chance(3, 4);
        let scale_master = h.chance(1, 2);

        // ---- axes
        let axis_defs = [("Weight", "wght"), ("Width", "wdth"), ("Contrast", "CNTR")];
        let mut axes = vec![];
        for (i, (aname, atag)) in axis_defs.iter().enumerate() {
            let mut ag = g.fork(20);
            if i >= n_axes { continue; }
            let pos = ag.weighted(&[2, 4, 1]); // default at min / inside / at max
            let unit = if p.awkward_axes && ag.chance(1, 3) { 100.0 } else { 64.0 };
            let below = if pos == 0 { 0.0 } else { unit * (1 + ag.below(6)) as f64 };
            let above = if pos == 2 { 0.0 } else { unit * (1 + ag.below(6)) as f64 };
            let d_default = [400.0, 100.0, 0.0][i] + unit * ag.below(4) as f64;
            let mut axis = Axis { name: aname.to_string(), tag: atag.to_string(), d_default, d_below: below, d_above: above, map: None, hidden: ag.chance(1, 10), label: None, other_labels: vec![] };
            if p.maps && ag.chance(1, 2) {
                // user space: monotone nodes; design nodes = min/default/max + optional interior
                let mut dnodes: BTreeSet<i64> = BTreeSet::new();
                dnodes.insert((axis.d_min() * 16.0) as i64); dnodes.insert((axis.d_default * 16.0) as i64); dnodes.insert((axis.d_max() * 16.0) as i64);
                let n_extra = ag.below(4);
                for _ in 0..n_extra {
                    let span = axis.d_max() - axis.d_min();
                    let k = 1 + ag.below(63);
                    dnodes.insert(((axis.d_min() + span * k as f64 / 64.0) * 16.0) as i64);
                }
                let dn: Vec<f64> = dnodes.into_iter().map(|v| v as f64 / 16.0).collect();
                // user nodes: strictly increasing, start anywhere, steps in sixteenths >= 1
                let mut u = [100.0, 50.0, 0.0][i] + ag.below(8) as f64 * 25.0;
                let mut nodes = vec![];
                for d in dn { nodes.push((u, d)); u += (1 + ag.below(12)) as f64 * [25.0, 12.5, 6.25, 1.0625][ag.below(4)]; }
                // flat segment: an extra user node mapping to the same design value as an interior node
                if p.flat_maps && nodes.len() >= 4 && ag.chance(1, 4) {
                    let k = 1 + ag.below(nodes.len() - 2);
                    if nodes[k].1 != axis.d_default && nodes[k].1 != axis.d_min() && nodes[k].1 != axis.d_max() {
                        let (u0, d0) = nodes[k]; let u1 = nodes[k + 1].0;
                        nodes.insert(k + 1, ((u0 + u1) / 2.0, d0));
                    }
                } else { ag.word(); }
                // a map that is the identity at minimum, default and maximum and bends only in between
                if ag.chance(1, 5) {
                    let fixed = [axis.d_min(), axis.d_default, axis.d_max()];
                    for k in 0..nodes.len() {
                        let d = nodes[k].1;
                        if fixed.contains(&d) { nodes[k].0 = d; continue; }
                        let lo = fixed.iter().copied().filter(|f| *f < d).fold(f64::MIN, f64::max);
                        nodes[k].0 = lo + (d - lo) * 0.5;
                    }
                    nodes.dedup_by(|b, a| a.0 == b.0);
                }
                axis.map = Some(nodes);
            }
            axes.push(axis);
        }

        // ---- sources (masters)
        let mut locs: Vec<Vec<f64>> = vec![vec![0.0; n_axes]];
        let mut mg = g.fork(40);
        if n_axes > 0 {
            // every axis direction that exists gets its extreme (so the axis range is defined by a master)
            for (i, a) in axes.iter().enumerate() {
                if a.d_above > 0.0 { let mut l = vec![0.0; n_axes]; l[i] = 1.0; locs.push(l); }
                if a.d_below > 0.0 { let mut l = vec![0.0; n_axes]; l[i] = -1.0; locs.push(l); }
            }
            for _ in 0..extra_masters {
                let mut l = vec![0.0; n_axes];
                let style = mg.weighted(&[3, 2, 2]); // on-axis intermediate / corner / interior
                for (i, a) in axes.iter().enumerate() {
                    let cands: Vec<f64> = [0.5, 0.25, 0.75, 1.0, -0.5, -0.25, -0.75, -1.0, 0.125, 0.375].iter().copied()
                        .filter(|v| if *v > 0.0 { a.d_above > 0.0 } else { a.d_below > 0.0 }).collect();
                    if cands.is_empty() { continue; }
                    let v = cands[mg.below(cands.len())];
                    match style {
                        0 => { if i == mg.clone().below(n_axes) { l[i] = v; } }
                        1 => { l[i] = if v > 0.0 { 1.0 } else { -1.0 }; }
                        _ => { l[i] = v; }
                    }
                }
                if style == 0 { let i = mg.below(n_axes); if l.iter().all(|v| *v == 0.0) { let a = &axes[i]; l[i] = if a.d_above > 0.0 { 0.5 } else { -0.5 }; } } else { mg.word(); }
                if !locs.contains(&l) && locs.len() < 7 { locs.push(l); }
            }
        }
        let style_names = ["Regular", "Bold", "Light", "Wide", "Narrow", "High", "Low", "Medium", "Black", "Thin"];
        let mut sources: Vec<Source> = locs.iter().enumerate().map(|(i, l)| Source {
            name: format!("master_{i}"), ufo: format!("M{i}.ufo"), layer: None, norm: l.clone(),
            info: FontInfo { family: Some("Synth".into()), style: Some(style_names[i % style_names.len()].into()), ..Default::default() }, kerning: None }).collect();
        // glyph-only intermediate sources (layers of the default master's UFO)
        let mut layer_locs: Vec<Vec<f64>> = vec![];
        if want_layers && n_axes > 0 {
            let n = 1 + mg.below(2);
            for k in 0..n {
                let i = mg.below(n_axes);
                let a = &axes[i];
                let cands: Vec<f64> = [0.5, 0.25, 0.75, -0.5, 0.375, 0.625].iter().copied().filter(|v| if *v > 0.0 { a.d_above > 0.0 } else { a.d_below > 0.0 }).collect();
                if cands.is_empty() { continue; }
                let mut l = vec![0.0; n_axes]; l[i] = cands[mg.below(cands.len())];
                if locs.contains(&l) || layer_locs.contains(&l) { continue; }
                layer_locs.push(l.clone());
                sources.push(Source { name: format!("layer_{k}"), ufo: "M0.ufo".into(), layer: Some(format!("L{k}")), norm: l, info: Default::default(), kerning: None });
            }
        }
        let n_full = locs.len();

        // ---- per-master font info
        for (i, s) in sources.iter_mut().enumerate() {
            let mut ig = g.fork(48);
            if s.layer.is_some() { continue; }
            let asc = (upem as f64 * 0.8).round() + if i > 0 { ig.signed(40) as f64 } else { 0.0 };
            let desc = -(upem as f64 * 0.2).round() + if i > 0 { ig.signed(20) as f64 } else { 0.0 };
            s.info.ascender = Some(asc); s.info.descender = Some(desc);
            s.info.x_height = Some((upem as f64 * 0.5).round() + ig.signed(30) as f64);
            s.info.cap_height = Some((upem as f64 * 0.7).round() + ig.signed(30) as f64);
            s.info.version_major = Some(1); s.info.version_minor = Some(0);
            if metrics_a {
                for (k, base, spread) in METRIC_KEYS {
                    let v = *base * upem as f64 / 1000.0;
                    s.info.metrics.insert(k, v.round() + ig.signed(*spread) as f64);
                }
            }
            if vertical {
                s.info.metrics.insert("openTypeVheaVertTypoAscender", (upem / 2) as f64 + ig.signed(20) as f64);
                s.info.metrics.insert("openTypeVheaVertTypoDescender", -((upem / 2) as f64) + ig.signed(20) as f64);
                s.info.metrics.insert("openTypeVheaVertTypoLineGap", ig.below(50) as f64);
            }
        }

        // ---- glyphs
        let mut pool: Vec<usize> = (0..NAME_POOL.len()).filter(|i| !p.latin_only || !matches!(NAME_POOL[*i].0, "Omega" | "alpha" | "uni0416" | "u1F600" | "u10330")).collect();
        let mut weird_pool: Vec<&str> = vec!["a\"b", "a%22b", "con", "CON", "aux", "a*b", "a?b", "a:b", "A_", "a_", "nul.alt", "Aa", "aA", "AA", "aa", "x^1", "x%5E1", "e\u{301}", "\u{e9}"];
        let mut glyphs: Vec<Glyph> = vec![];
        let mut gh = g.fork(8);
        let notdef_at = if explicit_notdef { Some(gh.below(n_glyphs.max(1))) } else { None };
        for gi in 0..n_glyphs {
            let mut gg = g.fork(110);
            let (name, cp) = if Some(gi) == notdef_at { (".notdef".to_string(), 0u32) } else if p.weird_names && !weird_pool.is_empty() && gg.clone().chance(1, 3) {
                gg.word(); let k = gg.below(weird_pool.len()); (weird_pool.remove(k).to_string(), 0u32) } else {
                let k = gg.below(pool.len()); let idx = pool.remove(k); (NAME_POOL[idx].0.to_string(), NAME_POOL[idx].1) };
            if Some(gi) == notdef_at { gg.word(); }
            let mut codepoints = if cp != 0 { vec![cp] } else { vec![] };
            if p.multi_codepoints && cp != 0 && gg.chance(1, 4) { codepoints.push(0xE000 + gi as u32); if gg.chance(1, 2) { codepoints.push(0xF0000 + gi as u32); } }
            // which full masters define this glyph
            let mut have: Vec<usize> = (0..n_full).collect();
            if want_sparse_glyphs && n_full > 2 && gg.chance(1, 3) {
                have.retain(|i| *i == 0 || gg.chance(1, 2));
            } else { gg.word(); }
            // layer sources
            for li in n_full..sources.len() { if gg.chance(1, 2) { have.push(li); } }
            // kind
            let can_comp = p.components > 0 && glyphs.iter().any(|x| x.name != ".notdef");
            let kind_sel = gg.weighted(&[1, 6, if can_comp { p.components * 2 } else { 0 }, if can_comp && p.mixed { p.components / 2 + 1 } else { 0 }]);
            let okind = if !p.outlines { OutlineKind::Line } else { match gg.weighted(&[4, 3, if p.cubic { 3 } else { 0 }]) { 0 => OutlineKind::Line, 1 => OutlineKind::Quad, _ => OutlineKind::Cubic } };
            let mut glyph = Glyph { name: name.clone(), codepoints, export: true, category: None, kind: if kind_sel == 0 { OutlineKind::Empty } else { okind.clone() }, sources: BTreeMap::new() };
            // skeleton
            let n_contours = if kind_sel == 1 || kind_sel == 3 { if p.outlines { 1 + gg.below(3) } else { 1 } } else { 0 };
            struct Sk { cx: f64, cy: f64, r: f64, n: usize, two_off: Vec<bool> }
            let mut sks = vec![];
            for c in 0..n_contours {
                let n = if p.outlines { 3 + gg.below(5) } else { 4 };
                let r = 60.0 + gg.below(140) as f64;
                let cx = 150.0 + c as f64 * 260.0 + gg.below(60) as f64; let cy = 100.0 + gg.below(400) as f64;
                let two_off = (0..n).map(|_| gg.chance(1, 4)).collect();
                sks.push(Sk { cx, cy, r, n, two_off });
            }
            if n_contours == 0 { for _ in 0..3 { gg.word(); } }
            // components
            let mut comp_specs: Vec<(String, [f64; 6], Vec<(f64, f64)>)> = vec![];
            if kind_sel >= 2 {
                let nc = 1 + gg.below(3);
                for _ in 0..nc {
                    let cands: Vec<&Glyph> = glyphs.iter().filter(|x| x.name != ".notdef" && depth_of(&glyphs, &x.name) < 3).collect();
                    if cands.is_empty() { break; }
                    let base = cands[gg.below(cands.len())].name.clone();
                    let xf2 = if p.transforms { match gg.weighted(&[10, 2, 2, 1, 1, 1, 1]) {
                        0 => [1.0, 0.0, 0.0, 1.0], 1 => [0.5, 0.0, 0.0, 0.5], 2 => [-1.0, 0.0, 0.0, 1.0], 3 => [0.0, 1.0, -1.0, 0.0],
                        4 => [1.0, 0.0, 0.25, 1.0], 5 => [1.5, 0.0, 0.0, 0.75], _ => [2.5, 0.0, 0.0, 2.5] } } else { [1.0, 0.0, 0.0, 1.0] };
                    let ox = dy(&mut gg, -200, 400, half); let oy = dy(&mut gg, -200, 400, half);
                    // per-source offset deltas
                    let deltas: Vec<(f64, f64)> = (0..sources.len()).map(|si| if si == 0 { (0.0, 0.0) } else { (gg.clone().signed(60) as f64 + si as f64, (si * 7 % 13) as f64 - 6.0) }).collect();
                    gg.word();
                    comp_specs.push((base, [xf2[0], xf2[1], xf2[2], xf2[3], ox, oy], deltas));
                }
            }
            let adv0 = match gg.weighted(&[8, 1, 1]) { 0 => 200.0 + gg.below(800) as f64, 1 => { gg.word(); 0.0 } _ => { gg.word(); 600.0 } };
            let mut pg = gg.fork(30);
            for &si in &have {
                let mut sg = pg.clone(); // per-source jitter derived from the same block, offset by source index
                for _ in 0..si { sg.word(); }
                let mscale = if scale_master && si > 0 { 1.0 + (si as f64) * 0.125 } else { 1.0 };
                let mut src = GlyphSource { advance: if si == 0 { adv0 } else { (adv0 + (sg.signed(80) as f64) + si as f64 * 10.0).max(0.0) }, ..Default::default() };
                if adv0 == 0.0 { src.advance = 0.0; }
                if vertical { src.height = Some(upem as f64 + if si > 0 { sg.signed(50) as f64 } else { 0.0 }); }
                for sk in &sks {
                    let mut pts = vec![];
                    let jit = |k: usize, si: usize| -> (f64, f64) { if si == 0 { (0.0, 0.0) } else { let a = ((k * 31 + si * 17) % 41) as f64 - 20.0; let b = ((k * 13 + si * 29) % 37) as f64 - 18.0; if small_jitter { ((a / 10.0).round(), (b / 10.0).round()) } else { (a, b) } } };
                    let on = |k: usize, rr: f64, ang_off: f64| -> (f64, f64) {
                        let ang = (k as f64 + ang_off) / sk.n as f64 * std::f64::consts::TAU;
                        ((sk.cx + rr * ang.cos()) * mscale, (sk.cy + rr * ang.sin()) * mscale)
                    };
                    let q = |v: f64| -> f64 { if half { (v * 2.0).round() / 2.0 } else { v.round() } };
                    for k in 0..sk.n {
                        let (jx, jy) = jit(k * 3, si);
                        let (x, y) = on(k, sk.r, 0.0);
                        match glyph.kind {
                            OutlineKind::Line | OutlineKind::Empty => pts.push(Pt { x: q(x + jx), y: q(y + jy), typ: PtType::Line }),
                            OutlineKind::Quad => {
                                // off-curve(s) precede the on-curve that ends the segment
                                if sk.two_off[k] {
                                    let (ax, ay) = on(k, sk.r * 1.25, -0.66); let (bx, by) = on(k, sk.r * 1.25, -0.33);
                                    let (j1, j2) = jit(k * 3 + 1, si); let (j3, j4) = jit(k * 3 + 2, si);
                                    pts.push(Pt { x: q(ax + j1), y: q(ay + j2), typ: PtType::Off });
                                    pts.push(Pt { x: q(bx + j3), y: q(by + j4), typ: PtType::Off });
                                } else {
                                    let (ax, ay) = on(k, sk.r * 1.2, -0.5); let (j1, j2) = jit(k * 3 + 1, si);
                                    pts.push(Pt { x: q(ax + j1), y: q(ay + j2), typ: PtType::Off });
                                }
                                pts.push(Pt { x: q(x + jx), y: q(y + jy), typ: PtType::QCurve });
                            }
                            OutlineKind::Cubic => {
                                let (ax, ay) = on(k, sk.r * 1.15, -0.66); let (bx, by) = on(k, sk.r * 1.15, -0.33);
                                let (j1, j2) = jit(k * 3 + 1, si); let (j3, j4) = jit(k * 3 + 2, si);
                                pts.push(Pt { x: q(ax + j1), y: q(ay + j2), typ: PtType::Off });
                                pts.push(Pt { x: q(bx + j3), y: q(by + j4), typ: PtType::Off });
                                pts.push(Pt { x: q(x + jx), y: q(y + jy), typ: PtType::Curve });
                            }
                        }
                    }
                    src.contours.push(Contour { pts });
                }
                for (base, xf, deltas) in &comp_specs {
                    let (dx, dy_) = deltas[si];
                    src.comps.push(Comp { base: base.clone(), xf: [xf[0], xf[1], xf[2], xf[3], xf[4] + dx, xf[5] + dy_] });
                }
                glyph.sources.insert(si, src);
            }
            glyphs.push(glyph);
        }
        // components may only reference glyphs that have a source wherever the composite has one?  No: fontc
        // interpolates. But a component base must exist in the default master (always true).

        // ---- non-export
        let mut skip_export = vec![];
        if p.non_export {
            let mut ng = g.fork(16);
            for gl in glyphs.iter_mut() { if gl.name != ".notdef" && ng.chance(1, 6) { gl.export = false; skip_export.push(gl.name.clone()); } }
        }
        // ---- glyph order
        let mut og = g.fork(40);
        let glyph_order = if use_order {
            let mut names: Vec<String> = glyphs.iter().map(|x| x.name.clone()).collect();
            // permutation
            for i in (1..names.len()).rev() { let j = og.below(i + 1); names.swap(i, j); }
            // subset
            let keep = names.len() - og.below(names.len() / 2 + 1);
            names.truncate(keep);
            if og.chance(1, 4) { let at = og.below(names.len() + 1); names.insert(at, "ghost".into()); }
            if og.chance(1, 6) && !names.is_empty() { let d = names[og.below(names.len())].clone(); names.push(d); }
            Some(names)
        } else { None };
        // ---- production names
        let ps_names = if p.ps_names && og.chance(1, 3) {
            let mut m = BTreeMap::new();
            for gl in &glyphs { if gl.name != ".notdef" && og.chance(1, 2) {
                // includes the coincidence shapes: several glyphs renamed to the same name, and names that
                // look like the suffixes de-duplication generates
                let v = match og.below(8) { 0 => format!("uni{:04X}", 0xE100 + m.len()), 1 | 2 => "dup".to_string(), 3 => format!("{}.prod", gl.name.replace('.', "_")), 4 => "bad name!é".to_string(), 5 => "dup.1".to_string(), 6 => "dup.2".to_string(), _ => format!("g{}", m.len()) };
                m.insert(gl.name.clone(), v); } }
            Some(m)
        } else { None };

        let _ = (n_full, layer_locs);
        // ---- named instances
        let mut instances = vec![];
        let mut ig = g.fork(40);
        if p.instances && !axes.is_empty() {
            let n = ig.below(5);
            let inst_names = ["Regular", "Bold", "Light Condensed", "Synth", "Black Wide", "Medium", "Weight", "Thin"];
            for k in 0..n {
                let mut norm = vec![];
                for a in &axes {
                    let cands: Vec<f64> = [0.0, 1.0, -1.0, 0.5, -0.5, 0.25, 0.75, -0.25, 0.125].iter().copied().filter(|v| *v == 0.0 || if *v > 0.0 { a.d_above > 0.0 } else { a.d_below > 0.0 }).collect();
                    norm.push(cands[ig.below(cands.len())]);
                }
                let style = inst_names[ig.below(inst_names.len())].to_string();
                instances.push(Instance { family: Some("Synth".into()), style: Some(style.clone()), name: Some(format!("Synth {style} {k}")), ps_name: if ig.chance(1, 3) { Some(format!("Synth-{}", style.replace(' ', ""))) } else { None }, norm, omit_default_dims: ig.chance(1, 3) });
            }
        }
        // ---- point axis (min == default == max): every location sits at its only value
        let mut pg2 = g.fork(4);
        if p.point_axis && !axes.is_empty() && pg2.chance(1, 4) {
            let at = pg2.below(axes.len() + 1);
            axes.insert(at, Axis { name: "Optical".into(), tag: "opsz".into(), d_default: 12.0, d_below: 0.0, d_above: 0.0, map: None, hidden: false, label: None, other_labels: vec![] });
            for s in sources.iter_mut() { s.norm.insert(at, 0.0); }
            for i in instances.iter_mut() { i.norm.insert(at, 0.0); }
        }
        let upem = if big_upem { 4096 } else { upem };
        let mut f = SynthFont { upem, axes, sources, glyphs, glyph_order, skip_export, ps_names, categories_explicit: false, features: None, instances, rules: vec![], rules_processing_last: false, lib_filters: vec![] };
        // later facets: each in its own block of words appended after the older ones, so that genomes
        // of stored replays keep their meaning
        let mut kg = g.fork(220);
        if p.kerning { gen_kerning(&mut f, &mut kg, half); }
        let mut ag = g.fork(260);
        if p.anchors { gen_anchors(&mut f, &mut ag); }
        let mut rg = g.fork(120);
        if p.rules { gen_rules(&mut f, &mut rg); }
        let mut ng = g.fork(80);
        if p.naming { gen_naming(&mut f, &mut ng); }
        let mut og2 = g.fork(4);
        if p.os2_ranges {
            let pick = |g: &mut Gen| -> Option<Vec<u32>> { match g.below(4) { 0 => Some(vec![]), 1 => Some(vec![0, 1]), 2 => Some(vec![0]), _ => None } };
            f.sources[0].info.os2_unicode_ranges = pick(&mut og2);
            f.sources[0].info.os2_codepage_ranges = pick(&mut og2);
        }
        // one UFO serving two designspace sources: a second <source> at a new location on one axis naming the
        // same file as an existing full master (a plateau); every drawing, anchor, metric and kerning value repeats there
        if (p.anchors || p.kerning || p.outlines) && !f.axes.is_empty() && (knob / 16) % 4 == 1 {
            let full: Vec<usize> = f.full_sources().map(|(i, _)| i).collect();
            let i = full[(knob as usize / 64) % full.len()];
            let a = (knob as usize / 256) % f.axes.len();
            let ax = &f.axes[a];
            if !ax.is_point() {
                for v in [0.5, -0.5, 0.25, -0.25, 0.75, -0.75] {
                    if (v > 0.0 && ax.d_above <= 0.0) || (v < 0.0 && ax.d_below <= 0.0) { continue; }
                    let mut norm = f.sources[i].norm.clone();
                    if norm[a] == v { continue; }
                    norm[a] = v;
                    if f.sources.iter().any(|s| s.norm == norm) { continue; }
                    let si = f.sources.len();
                    let mut src = f.sources[i].clone(); src.name = format!("plateau_{si}"); src.norm = norm;
                    f.sources.push(src);
                    for gl in f.glyphs.iter_mut() { if let Some(d) = gl.sources.get(&i).cloned() { gl.sources.insert(si, d); } }
                    break;
                }
            }
        }
        f
    }
}

pub fn is_mark_name(n: &str) -> bool { n.ends_with("comb") }

#[derive(Clone, Copy, PartialEq)]
enum KRef { Glyph(usize), Group(usize) }

fn gen_kerning(f: &mut SynthFont, g: &mut Gen, half: bool) {
    let pool: Vec<String> = f.glyphs.iter().filter(|x| x.name != ".notdef" && !is_mark_name(&x.name)).map(|x| x.name.clone()).collect();
    if pool.len() < 2 || !g.chance(9, 10) { return; }
    let n = pool.len();
    let (ng1, ng2) = (g.below(4), g.below(4));
    // only the first 12 glyphs can be grouped: the block of words is fixed in size and must leave room for the masters
    let mut base1: Vec<Option<usize>> = (0..n).map(|i| { if i >= 12 { return None; } let c = g.chance(1, 2); let k = g.below(ng1.max(1)); if ng1 > 0 && c { Some(k) } else { None } }).collect();
    let mut base2: Vec<Option<usize>> = (0..n).map(|i| { if i >= 12 { return None; } let c = g.chance(1, 2); let k = g.below(ng2.max(1)); if ng2 > 0 && c { Some(k) } else { None } }).collect();
    base1.truncate(n); base2.truncate(n);
    // with many glyphs: every ordered glyph pair kerned (several hundred adjustments)
    let dense = { let c = g.chance(7, 8); n >= 17 && c };
    let n_pairs = 1 + g.below(9);
    let mut base_pairs: Vec<(KRef, KRef, f64)> = vec![];
    for _ in 0..n_pairs {
        let a = if ng1 > 0 && g.chance(1, 2) { KRef::Group(g.below(ng1)) } else { g.word(); KRef::Glyph(g.below(n)) };
        let b = if ng2 > 0 && g.chance(1, 2) { KRef::Group(g.below(ng2)) } else { g.word(); KRef::Glyph(g.below(n)) };
        let v = -(10.0 + g.below(90) as f64) * if g.chance(1, 4) { -1.0 } else { 1.0 };
        if !base_pairs.iter().any(|(x, y, _)| *x == a && *y == b) { base_pairs.push((a, b, v)); }
    }
    // exceptions to class pairs: a member glyph on one or both sides, half of them zero in every master
    let mut zero_everywhere: Vec<(KRef, KRef)> = vec![];
    for (a, b, v) in base_pairs.clone() {
        let mut eg = g.fork(5);
        let (KRef::Group(ga), KRef::Group(gb)) = (a, b) else { continue };
        if !eg.chance(1, 2) { continue; }
        let m1: Vec<usize> = (0..n).filter(|i| base1[*i] == Some(ga)).collect();
        let m2: Vec<usize> = (0..n).filter(|i| base2[*i] == Some(gb)).collect();
        if m1.is_empty() || m2.is_empty() { continue; }
        let (x, y) = match eg.below(3) { 0 => (KRef::Group(ga), KRef::Glyph(m2[eg.below(m2.len())])), 1 => (KRef::Glyph(m1[eg.below(m1.len())]), KRef::Group(gb)), _ => (KRef::Glyph(m1[eg.below(m1.len())]), KRef::Glyph(m2[eg.clone().below(m2.len())])) };
        if base_pairs.iter().any(|(p, q, _)| *p == x && *q == y) { continue; }
        if eg.chance(1, 2) { zero_everywhere.push((x, y)); }
        base_pairs.push((x, y, v / 2.0));
    }
    if dense { for i in 0..n { for j in 0..n { let v = -(((i * 7 + j * 3) % 90) as f64) - 5.0; if !base_pairs.iter().any(|(x, y, _)| *x == KRef::Glyph(i) && *y == KRef::Glyph(j)) { base_pairs.push((KRef::Glyph(i), KRef::Glyph(j), v)); } } } }
    let full: Vec<usize> = f.full_sources().map(|(i, _)| i).collect();
    for si in full {
        let mut mg = g.fork(28);
        if !mg.chance(if si == 0 { 7 } else { 5 }, 8) { continue; }
        let (mut g1, mut g2) = (base1.clone(), base2.clone());
        // divergent grouping: move / ungroup / newly group one glyph per side
        for (side, ng) in [(&mut g1, ng1), (&mut g2, ng2)] {
            if si > 0 && mg.chance(1, 2) { let k = mg.below(n); side[k] = match mg.below(3) { 0 => None, _ => if ng > 0 { Some(mg.below(ng)) } else { None } }; } else { mg.word(); mg.word(); mg.word(); }
        }
        let rename = si > 0 && mg.chance(1, 6);
        let gname = |side: usize, k: usize| -> String { format!("public.kern{side}.g{k}{}", if rename { format!("_m{si}") } else { String::new() }) };
        let mut k = Kerning::default();
        for (side, assign) in [(1usize, &g1), (2usize, &g2)] {
            for (gi, a) in assign.iter().enumerate() { if let Some(grp) = a { k.groups.entry(gname(side, *grp)).or_default().push(pool[gi].clone()); } }
        }
        for (a, b, v) in &base_pairs {
            let drop = mg.chance(1, 5);
            let zero = mg.chance(1, 8);
            let jit = if si == 0 { mg.word(); 0.0 } else { mg.signed(30) as f64 };
            let halfv = half && mg.chance(1, 3);
            if drop { continue; }
            let r1 = match a { KRef::Glyph(i) => pool[*i].clone(), KRef::Group(k1) => gname(1, *k1) };
            let r2 = match b { KRef::Glyph(i) => pool[*i].clone(), KRef::Group(k2) => gname(2, *k2) };
            if matches!(a, KRef::Group(_)) && !k.groups.contains_key(&r1) { continue; }
            if matches!(b, KRef::Group(_)) && !k.groups.contains_key(&r2) { continue; }
            let val = if zero || zero_everywhere.iter().any(|(x, y)| x == a && y == b) { 0.0 } else { v + jit + if halfv { 0.5 } else { 0.0 } };
            k.pairs.insert((r1, r2), val);
        }
        f.sources[si].kerning = Some(k);
    }
}

/// UFO kerning value lookup algorithm on one master's own kerning and groups
pub fn ufo_kern_lookup(k: &Kerning, a: &str, b: &str) -> f64 {
    let g1 = k.groups.iter().find(|(n, m)| n.starts_with("public.kern1.") && m.iter().any(|x| x == a)).map(|(n, _)| n.clone());
    let g2 = k.groups.iter().find(|(n, m)| n.starts_with("public.kern2.") && m.iter().any(|x| x == b)).map(|(n, _)| n.clone());
    let (a, b) = (Some(a.to_string()), Some(b.to_string()));
    for (x, y) in [(&a, &b), (&a, &g2), (&g1, &b), (&g1, &g2)] {
        if let (Some(x), Some(y)) = (x, y) { if let Some(v) = k.pairs.get(&(x.clone(), y.clone())) { return *v; } }
    }
    0.0
}

pub const ANCHOR_NAMES: &[&str] = &["top", "bottom", "ogonek"];

fn gen_anchors(f: &mut SynthFont, g: &mut Gen) {
    if !g.chance(9, 10) { return; }
    f.categories_explicit = true;
    let n_src = f.sources.len();
    let propagate = g.chance(1, 4);
    if propagate { f.lib_filters.push("propagateAnchors"); }
    // make sure there is something to attach: the first two non-.notdef glyphs without a mark name may be turned into marks
    let have_marks = f.glyphs.iter().filter(|x| is_mark_name(&x.name)).count();
    let mut extra_marks = 2usize.saturating_sub(have_marks) + g.below(2);
    for gl in f.glyphs.iter_mut() {
        let mut gg = g.fork(24);
        if gl.name == ".notdef" { continue; }
        let is_lig = gl.name.contains('_') && !gl.name.starts_with('_');
        let mut is_mark = is_mark_name(&gl.name);
        if !is_mark && !is_lig && extra_marks > 0 && gg.chance(1, 2) { is_mark = true; extra_marks -= 1; }
        gl.category = Some(if is_mark { "mark" } else if is_lig { "ligature" } else { "base" });
        // propagation class: a composite of exactly one translated component gets no anchors of its own
        let single_comp = gl.sources.get(&0).map(|s| s.contours.is_empty() && s.comps.len() == 1 && s.comps[0].xf[..4] == [1.0, 0.0, 0.0, 1.0]).unwrap_or(false);
        if propagate && single_comp && !is_mark { continue; }
        let mut list: Vec<(String, f64, f64)> = vec![];
        // a mark attaches through exactly one mark anchor (with several, which one a shaper ends up using is not
        // something the source defines); it may carry base anchors for mark-to-mark as well
        let mark_anchor = gg.weighted(&[4, 4, 3, 1]);
        for (ai, an) in ANCHOR_NAMES.iter().enumerate() {
            let x = 100.0 + gg.below(500) as f64; let y = [700.0, -50.0, 0.0][ai] + gg.signed(60) as f64;
            if is_mark {
                if ai == mark_anchor { list.push((format!("_{an}"), x, y - 400.0)); }
                if gg.chance(1, 3) { list.push((an.to_string(), x + 10.0, y + 150.0)); }
                gg.word();
            } else if is_lig {
                if gg.chance(2, 3) { list.push((format!("{an}_1"), x * 0.5, y)); list.push((format!("{an}_2"), x * 0.5 + 300.0, y)); }
                gg.word();
            } else {
                if gg.chance(3, 4) { list.push((an.to_string(), x, y)); }
                gg.word();
            }
        }
        // a mark must have at least one mark anchor to be of any use; keep it possible that it has none
        // a third of the glyphs carry half-unit coordinates (negative ones too) so that the rounding rule shows
        let halfish = gg.chance(1, 3);
        for (&si, src) in gl.sources.iter_mut() {
            for (k, (n, x, y)) in list.iter().enumerate() {
                let (jx, jy) = if si == 0 { (0.0, 0.0) } else { ((((k * 7 + si * 13) % 31) as f64) - 15.0, (((k * 11 + si * 5) % 23) as f64) - 11.0) };
                let (hx, hy) = if halfish { (if (k + si) % 2 == 0 { 0.5 } else { 0.0 }, if (k + si) % 3 != 1 { -0.5 } else { 0.0 }) } else { (0.0, 0.0) };
                let flip = if halfish && k % 2 == 1 { -1.0 } else { 1.0 };
                src.anchors.push((n.clone(), flip * (x + jx) + hx, y + jy + hy));
            }
        }
        let _ = n_src;
    }
    // feature code that asks for the generated mark / mkmk lookups explicitly through insertion markers
    let first = f.glyphs.iter().find(|x| x.export && x.name != ".notdef").map(|x| x.name.clone());
    let variant = g.weighted(&[6, 1, 1, 1]);
    let tag = if g.chance(1, 3) { "mkmk" } else { "mark" };
    if let (Some(first), true) = (first, variant > 0) {
        let manual = format!("feature {tag} {{\n    pos {first} <0 0 0 0>;\n}} {tag};\n");
        let marker = format!("feature {tag} {{\n    # Automatic Code\n}} {tag};\n");
        f.features = Some(match variant { 1 => marker, 2 => format!("{manual}{marker}"), _ => format!("{marker}{manual}") });
    }
}

fn gen_rules(f: &mut SynthFont, g: &mut Gen) {
    let var: Vec<usize> = f.axes.iter().enumerate().filter(|(_, a)| !a.is_point()).map(|(i, _)| i).collect();
    if var.is_empty() || !g.chance(9, 10) { return; }
    let pool: Vec<String> = f.glyphs.iter().filter(|x| x.export && x.name != ".notdef").map(|x| x.name.clone()).collect();
    if pool.len() < 2 { return; }
    // inputs and outputs are disjoint so that no rule's output is another rule's input
    let n_in = 1 + g.below((pool.len() / 2).min(3));
    let (ins, outs) = pool.split_at(n_in);
    f.rules_processing_last = g.chance(1, 4);
    // half of the rule lists are free of same-input conflicts by construction
    let consistent = g.chance(1, 2);
    let n_rules = 1 + g.below(5);
    let grid = [-1.0, -0.75, -0.5, -0.25, 0.0, 0.25, 0.5, 0.75, 1.0];
    for ri in 0..n_rules {
        let mut rg = g.fork(22);
        let n_sets = 1 + rg.weighted(&[5, 2, 1]);
        let mut sets = vec![];
        for _ in 0..n_sets {
            let mut cs = vec![];
            for &ai in &var {
                let a = &f.axes[ai];
                let use_axis = rg.chance(2, 3);
                let lo_i = rg.below(grid.len()); let span = rg.below(grid.len());
                let open = rg.below(6);
                if !use_axis && !(cs.is_empty() && ai == *var.last().unwrap()) { continue; }
                let clampn = |v: f64| -> f64 { if v > 0.0 && a.d_above == 0.0 { 0.0 } else if v < 0.0 && a.d_below == 0.0 { 0.0 } else { v } };
                let lo = clampn(grid[lo_i]); let hi = clampn(grid[(lo_i + span).min(grid.len() - 1)]);
                let (mut lo, mut hi) = if lo <= hi { (lo, hi) } else { (hi, lo) };
                // ranges have positive width
                if lo >= hi { if a.d_above > 0.0 && hi < 1.0 { hi = 1.0; } else { lo = -1.0; } }
                let (mn, mx) = match open { 0 => (None, Some(hi)), 1 => (Some(lo), None), _ => (Some(lo), Some(hi)) };
                cs.push((ai, mn.map(|v| a.norm_to_design(v)), mx.map(|v| a.norm_to_design(v))));
            }
            sets.push(cs);
        }
        let n_subs = 1 + rg.below(2.min(ins.len()));
        let mut subs: Vec<(String, String)> = vec![];
        for _ in 0..n_subs {
            let ia = rg.below(ins.len()); let ob = rg.below(outs.len());
            let a = ins[ia].clone(); let b = outs[if consistent { ia % outs.len() } else { ob }].clone();
            if !subs.iter().any(|(x, _)| *x == a) { subs.push((a, b)); }
        }
        f.rules.push(Rule { name: format!("rule{ri}"), condition_sets: sets, subs });
    }
}

fn gen_naming(f: &mut SynthFont, g: &mut Gen) {
    let fam = ["Synth", "Synth Sans", "Regular", "Bold"][g.weighted(&[6, 3, 1, 1])].to_string();
    let styles = ["Regular", "Bold", "Italic", "Bold Italic", "Light", "Condensed Medium", "Synth", "Weight"];
    let n_full = f.full_sources().count();
    for (k, s) in f.sources.iter_mut().enumerate() {
        let mut sg = g.fork(10);
        if s.layer.is_some() { continue; }
        let style = styles[if k == 0 { sg.weighted(&[6, 2, 1, 1, 2, 2, 1, 1]) } else { sg.below(styles.len()) }].to_string();
        s.info.family = if sg.chance(1, 12) { None } else { Some(fam.clone()) };
        s.info.style = if sg.chance(1, 12) { None } else { Some(style.clone()) };
        match sg.below(4) {
            0 => { s.info.style_map_family = Some(format!("{fam} {style}")); s.info.style_map_style = Some(["regular", "bold", "italic", "bold italic"][sg.below(4)]); }
            1 => { s.info.style_map_family = Some(fam.clone()); sg.word(); }
            _ => { sg.word(); }
        }
        if sg.chance(1, 4) { s.info.preferred_family = Some(format!("{fam} Pref")); }
        if sg.chance(1, 4) { s.info.preferred_subfamily = Some(format!("{style} Pref")); }
        if sg.chance(1, 4) { s.info.postscript_font_name = Some(format!("{}-{}", fam.replace(' ', ""), style.replace(' ', ""))); }
        s.info.version_major = Some(1 + sg.below(3) as i64); s.info.version_minor = Some(sg.below(1000) as i64);
        let _ = n_full;
    }
    // axis labels and instance names that coincide with other strings
    let d_fam = f.sources[0].info.family.clone().unwrap_or_default();
    let d_style = f.sources[0].info.style.clone().unwrap_or_default();
    for a in f.axes.iter_mut() {
        let c = g.below(4);
        // labels in other languages, with or without an English one
        a.other_labels = match c { 0 => vec![("de".to_string(), format!("{}-de", a.name))], 1 => vec![("fr".to_string(), format!("{}-fr", a.name)), ("de".to_string(), format!("{}-de", a.name)), ("ja".to_string(), "\u{592a}\u{3055}".to_string())], _ => vec![] };
    }
    for a in f.axes.iter_mut() { let c = g.below(6); a.label = match c { 0 => Some(d_fam.clone()), 1 => Some(d_style.clone()), 2 => Some(format!("{} Axis", a.name)), 3 => Some("Weight".to_string()), _ => None }; if a.label.as_deref() == Some("") { a.label = None; } }
    // name records the source supplies under font-specific ids (they must survive next to the ids the compiler allocates)
    match g.below(5) { 0 => f.sources[0].info.name_records.push((256, "Source Record 256".to_string())), 1 => { f.sources[0].info.name_records.push((257, "Source Record 257".to_string())); f.sources[0].info.name_records.push((300, "Source Record 300".to_string())); } _ => {} }
    // names supplied through feature code: a stylistic set with featureNames, registered for several language
    // systems and with a language-specific lookup, so that the tag has more than one feature record
    let ex: Vec<String> = f.glyphs.iter().filter(|x| x.export && x.name != ".notdef" && !x.name.contains('"') && x.name.chars().all(|c| c.is_ascii_alphanumeric() || c == '.' || c == '_')).map(|x| x.name.clone()).collect();
    let fea_variant = g.below(4);
    if ex.len() >= 2 && fea_variant > 0 {
        let (a, b) = (&ex[0], &ex[1]);
        let c = ex.get(2).unwrap_or(a);
        let mut t = String::from("languagesystem DFLT dflt;\nlanguagesystem latn dflt;\n");
        if fea_variant >= 2 { t.push_str("languagesystem latn TRK;\n"); }
        t.push_str(&format!("feature ss01 {{\n  featureNames {{ name \"Fancy alternates\"; }};\n  sub {a} by {b};\n"));
        if fea_variant == 3 && c != b { t.push_str(&format!("  script latn;\n  language TRK;\n  sub {c} by {b};\n")); }
        t.push_str("} ss01;\n");
        // character variants with parameter labels (a run of consecutive name ids); two features may share a label string
        let cv = g.clone().below(3);
        if cv >= 1 {
            t.push_str(&format!("feature cv01 {{\n  cvParameters {{\n    FeatUILabelNameID {{ name \"First variant\"; }};\n    ParamUILabelNameID {{ name \"Default\"; }};\n    ParamUILabelNameID {{ name \"Open tail\"; }};\n  }};\n  sub {a} by {b};\n}} cv01;\n"));
            if cv == 1 { t.push_str(&format!("feature cv02 {{\n  cvParameters {{\n    FeatUILabelNameID {{ name \"Second variant\"; }};\n    ParamUILabelNameID {{ name \"Plain\"; }};\n    ParamUILabelNameID {{ name \"Default\"; }};\n    ParamUILabelNameID {{ name \"Closed tail\"; }};\n  }};\n  sub {a} by {b};\n}} cv02;\n")); }
        }
        f.features = Some(t);
    }
    // a STAT table written in feature code, with the elided fallback name given by id or by string
    let stat_variant = g.below(5);
    if stat_variant <= 1 {
        if let Some(a) = f.axes.iter().find(|a| !a.is_point()) {
            let mut t = f.features.clone().unwrap_or_default();
            let elided = if stat_variant == 0 { "ElidedFallbackNameID 2;".to_string() } else { "ElidedFallbackName { name \"Elided\"; };".to_string() };
            t.push_str(&format!("table STAT {{\n  {elided}\n  DesignAxis {} 0 {{ name \"Stat {}\"; }};\n  AxisValue {{ location {} {}; name \"Stat Default\"; flag ElidableAxisValueName; }};\n}} STAT;\n", a.tag, a.name, a.tag, crate::synth::ufo::num(a.u_default())));
            f.features = Some(t);
        }
    }
    let n_inst = f.instances.len();
    for (k, inst) in f.instances.iter_mut().enumerate() {
        let mut ig = g.fork(6);
        let pick = ig.below(8);
        let style = match pick { 0 => d_style.clone(), 1 => d_fam.clone(), 2 => format!("{d_fam} {d_style}"), 3 => "Weight".to_string(), 4 => "Regular".to_string(), 5 => "Bold".to_string(), _ => format!("Style {k}") };
        if !style.is_empty() { inst.style = Some(style.clone()); inst.name = Some(format!("{d_fam} {style}")); }
        inst.family = if ig.chance(1, 4) { None } else { Some(d_fam.clone()) };
        if ig.chance(1, 3) { inst.ps_name = Some(format!("{}-{}", d_fam.replace(' ', ""), style.replace(' ', ""))); } else { inst.ps_name = None; }
        let _ = n_inst;
    }
}

/// (fontinfo key, value per 1000 upem, per-master spread)
pub const METRIC_KEYS: &[(&str, f64, i64)] = &[
    ("openTypeOS2TypoAscender", 800.0, 30), ("openTypeOS2TypoDescender", -200.0, 20), ("openTypeOS2TypoLineGap", 90.0, 20),
    ("openTypeOS2WinAscent", 950.0, 30), ("openTypeOS2WinDescent", 250.0, 20),
    ("openTypeHheaAscender", 900.0, 30), ("openTypeHheaDescender", -240.0, 20), ("openTypeHheaLineGap", 50.0, 20),
    ("openTypeHheaCaretSlopeRise", 1000.0, 0), ("openTypeHheaCaretSlopeRun", 0.0, 20), ("openTypeHheaCaretOffset", 0.0, 20),
    ("openTypeOS2StrikeoutPosition", 300.0, 20), ("openTypeOS2StrikeoutSize", 50.0, 10),
    ("openTypeOS2SubscriptXOffset", 0.0, 10), ("openTypeOS2SubscriptXSize", 650.0, 20), ("openTypeOS2SubscriptYOffset", 75.0, 10), ("openTypeOS2SubscriptYSize", 600.0, 20),
    ("openTypeOS2SuperscriptXOffset", 0.0, 10), ("openTypeOS2SuperscriptXSize", 650.0, 20), ("openTypeOS2SuperscriptYOffset", 350.0, 10), ("openTypeOS2SuperscriptYSize", 600.0, 20),
    ("postscriptUnderlinePosition", -100.0, 20), ("postscriptUnderlineThickness", 50.0, 10),
];

pub fn depth_of(glyphs: &[Glyph], name: &str) -> usize {
    let Some(g) = glyphs.iter().find(|g| g.name == name) else { return 0 };
    let Some(src) = g.sources.get(&0) else { return 0 };
    src.comps.iter().map(|c| 1 + depth_of(glyphs, &c.base)).max().unwrap_or(0)
}

pub type Xf = [f64; 6];
pub const IDENT: Xf = [1.0, 0.0, 0.0, 1.0, 0.0, 0.0];
pub fn xf_apply(t: &Xf, x: f64, y: f64) -> (f64, f64) { (t[0] * x + t[2] * y + t[4], t[1] * x + t[3] * y + t[5]) }
/// parent after child
pub fn xf_mul(p: &Xf, c: &Xf) -> Xf {
    [p[0] * c[0] + p[2] * c[1], p[1] * c[0] + p[3] * c[1], p[0] * c[2] + p[2] * c[3], p[1] * c[2] + p[3] * c[3],
     p[0] * c[4] + p[2] * c[5] + p[4], p[1] * c[4] + p[3] * c[5] + p[5]]
}
pub fn xf_det(t: &Xf) -> f64 { t[0] * t[3] - t[1] * t[2] }

impl SynthFont {
    /// The drawing of `name` at source `si`, fully resolved through components (float transforms,
    /// unrounded). None when the glyph or any transitive component has no source at `si`.
    pub fn resolved(&self, name: &str, si: usize, xf: &Xf, depth: usize) -> Option<Vec<Vec<Pt>>> {
        if depth > 8 { return None; }
        let g = self.glyph(name)?;
        let src = g.sources.get(&si)?;
        let mut out = vec![];
        for c in &src.contours {
            out.push(c.pts.iter().map(|p| { let (x, y) = xf_apply(xf, p.x, p.y); Pt { x, y, typ: p.typ.clone() } }).collect());
        }
        for comp in &src.comps {
            let sub = self.resolved(&comp.base, si, &xf_mul(xf, &comp.xf), depth + 1)?;
            out.extend(sub);
        }
        Some(out)
    }
    pub fn max_depth(&self, name: &str) -> usize { depth_of(&self.glyphs, name) }
    pub fn has_components(&self, name: &str) -> bool { self.glyph(name).and_then(|g| g.sources.get(&0)).map(|s| !s.comps.is_empty()).unwrap_or(false) }
}

/// explicit (x, y, on) list of a model contour; consecutive off-curves imply an on-curve (UFO qcurve semantics)
pub fn contour_points(c: &[Pt]) -> Vec<(f64, f64, bool)> { c.iter().map(|p| (p.x, p.y, p.typ != PtType::Off)).collect() }

/// segments of a model contour (closed; starts with the off-curves of the segment ending at the first on-curve)
pub fn contour_segments(c: &[Pt]) -> Vec<crate::ot::outline::Seg> {
    use crate::ot::outline::Seg;
    let n = c.len();
    let mut segs = vec![];
    let Some(s) = c.iter().position(|p| p.typ != PtType::Off) else { return segs };
    let mut cur = (c[s].x, c[s].y);
    let mut ctrl: Vec<(f64, f64)> = vec![];
    for k in 1..=n {
        let p = &c[(s + k) % n];
        match p.typ {
            PtType::Off => ctrl.push((p.x, p.y)),
            PtType::Curve if ctrl.len() == 2 => { segs.push(Seg::Cubic(cur, ctrl[0], ctrl[1], (p.x, p.y))); cur = (p.x, p.y); ctrl.clear(); }
            PtType::QCurve | PtType::Curve if !ctrl.is_empty() => {
                // TrueType style spline: implied on-curves between consecutive off-curves
                for w in 0..ctrl.len() {
                    let end = if w + 1 < ctrl.len() { ((ctrl[w].0 + ctrl[w + 1].0) / 2.0, (ctrl[w].1 + ctrl[w + 1].1) / 2.0) } else { (p.x, p.y) };
                    segs.push(Seg::Quad(cur, ctrl[w], end)); cur = end;
                }
                ctrl.clear();
            }
            _ => { segs.push(Seg::Line(cur, (p.x, p.y))); cur = (p.x, p.y); }
        }
    }
    segs
}
