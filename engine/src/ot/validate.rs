//! C05 validity predicate over a compiled font: container, required tables, full traversal with
//! read-fonts (every offset resolved), glyph-count agreement, cross-table indices in range,
//! component graph acyclic and within maxp.
use super::sfnt;
use super::{Font, RawGlyph};
use read_fonts::traversal::{FieldType, SomeArray, SomeTable};
use read_fonts::types::Tag;
use read_fonts::TableProvider;

pub type Problems = Vec<(String, String)>;

fn walk_field<'a>(path: &str, f: FieldType<'a>, out: &mut Problems, budget: &mut usize) {
    if *budget == 0 { return; }
    *budget -= 1;
    match f {
        FieldType::ResolvedOffset(r) => match r.target {
            Ok(t) => walk_table(&format!("{path}>{}", t.type_name()), &*t, out, budget),
            // read-fonts' generic traversal resolves the device offsets of value records nested in
            // PairPosFormat2 class records against the wrong base (checked with the typed API: they
            // resolve against the subtable); those are validated by the layout interpreter instead
            Err(_) if path.contains(".class2_records[") && path.ends_with("_device") => {}
            Err(e) => out.push(("offset-unresolvable".into(), format!("{path}: offset {} -> {e}", r.offset.to_u32()))),
        },
        FieldType::StringOffset(s) => { if let Err(e) = s.target { out.push(("string-offset-unresolvable".into(), format!("{path}: {e}"))); } }
        FieldType::ArrayOffset(a) => match a.target {
            Ok(arr) => walk_array(path, &*arr, out, budget),
            Err(e) => out.push(("array-offset-unresolvable".into(), format!("{path}: {e}"))),
        },
        FieldType::Record(r) => walk_table(path, &r, out, budget),
        FieldType::Array(a) => walk_array(path, &*a, out, budget),
        _ => {}
    }
}

fn walk_array<'a>(path: &str, a: &(dyn SomeArray<'a> + 'a), out: &mut Problems, budget: &mut usize) {
    for (i, item) in a.iter().enumerate() {
        if *budget == 0 { return; }
        walk_field(&format!("{path}[{i}]"), item, out, budget);
    }
}

fn walk_table<'a>(path: &str, t: &(dyn SomeTable<'a> + 'a), out: &mut Problems, budget: &mut usize) {
    for field in t.iter() {
        if *budget == 0 { return; }
        walk_field(&format!("{path}.{}", field.name), field.value, out, budget);
    }
}

macro_rules! traverse {
    ($font:expr, $out:expr, $budget:expr, $tag:literal, $getter:ident) => {
        if $font.has($tag) {
            match $font.f.$getter() {
                Ok(t) => walk_table(std::str::from_utf8($tag).unwrap(), &t, $out, $budget),
                Err(e) => $out.push(("table-unparseable".into(), format!("{}: {e}", String::from_utf8_lossy($tag)))),
            }
        }
    };
}

pub fn traverse_all(font: &Font, out: &mut Problems) -> usize {
    let mut budget = 3_000_000usize;
    let b = &mut budget;
    traverse!(font, out, b, b"head", head); traverse!(font, out, b, b"hhea", hhea); traverse!(font, out, b, b"maxp", maxp);
    traverse!(font, out, b, b"OS/2", os2); traverse!(font, out, b, b"name", name); traverse!(font, out, b, b"post", post);
    traverse!(font, out, b, b"cmap", cmap); traverse!(font, out, b, b"fvar", fvar); traverse!(font, out, b, b"avar", avar);
    traverse!(font, out, b, b"STAT", stat); traverse!(font, out, b, b"HVAR", hvar); traverse!(font, out, b, b"VVAR", vvar);
    traverse!(font, out, b, b"MVAR", mvar); traverse!(font, out, b, b"GDEF", gdef); traverse!(font, out, b, b"GSUB", gsub);
    traverse!(font, out, b, b"GPOS", gpos); traverse!(font, out, b, b"vhea", vhea); traverse!(font, out, b, b"gasp", gasp);
    traverse!(font, out, b, b"meta", meta); traverse!(font, out, b, b"COLR", colr); traverse!(font, out, b, b"CPAL", cpal);
    traverse!(font, out, b, b"gvar", gvar); traverse!(font, out, b, b"hmtx", hmtx); traverse!(font, out, b, b"vmtx", vmtx);
    traverse!(font, out, b, b"BASE", base);
    3_000_000 - budget
}

/// what the indices found in one layout table may refer to
struct Refs { n_glyphs: usize, n_lookups: usize, n_features: usize, n_axes: usize, n_mark_sets: usize, ivs_counts: Vec<usize> }

fn last_name(path: &str) -> &str { let p = path.rsplit('.').next().unwrap_or(path); p.split('[').next().unwrap_or(p) }

/// second pass over GSUB / GPOS / GDEF: every glyph id, lookup index, feature index, axis index, mark-set index and
/// variation index found anywhere in the table refers to something that exists
fn refs_field<'a>(path: &str, f: FieldType<'a>, r: &Refs, out: &mut Problems, budget: &mut usize, ctx: &mut (Option<u16>, Option<u16>)) {
    if *budget == 0 { return; }
    *budget -= 1;
    match f {
        FieldType::GlyphId16(g) => { if g.to_u16() as usize >= r.n_glyphs { out.push(("glyph-id-out-of-range".into(), format!("{path}: {} of {}", g.to_u16(), r.n_glyphs))); } }
        FieldType::U16(v) => match last_name(path) {
            "lookup_list_index" | "lookup_list_indices" => { if v as usize >= r.n_lookups { out.push(("lookup-index-out-of-range".into(), format!("{path}: {v} of {}", r.n_lookups))); } }
            "feature_indices" | "feature_index" => { if v as usize >= r.n_features { out.push(("feature-index-out-of-range".into(), format!("{path}: {v} of {}", r.n_features))); } }
            "required_feature_index" => { if v != 0xFFFF && v as usize >= r.n_features { out.push(("feature-index-out-of-range".into(), format!("{path}: {v} of {}", r.n_features))); } }
            "axis_index" => { if v as usize >= r.n_axes { out.push(("axis-index-out-of-range".into(), format!("{path}: {v} of {}", r.n_axes))); } }
            "mark_filtering_set" => { if v as usize >= r.n_mark_sets { out.push(("mark-filtering-set-out-of-range".into(), format!("{path}: {v} of {}", r.n_mark_sets))); } }
            "delta_set_outer_index" => ctx.0 = Some(v),
            "delta_set_inner_index" => ctx.1 = Some(v),
            _ => {}
        },
        FieldType::ResolvedOffset(ro) => { if let Ok(t) = ro.target { refs_table(&format!("{path}>{}", t.type_name()), &*t, r, out, budget); } }
        FieldType::ArrayOffset(a) => { if let Ok(arr) = a.target { refs_array(path, &*arr, r, out, budget); } }
        FieldType::Record(rec) => refs_table(path, &rec, r, out, budget),
        FieldType::Array(a) => refs_array(path, &*a, r, out, budget),
        _ => {}
    }
}
fn refs_array<'a>(path: &str, a: &(dyn SomeArray<'a> + 'a), r: &Refs, out: &mut Problems, budget: &mut usize) {
    let mut ctx = (None, None);
    for (i, item) in a.iter().enumerate() { if *budget == 0 { return; } refs_field(&format!("{path}[{i}]"), item, r, out, budget, &mut ctx); }
}
fn refs_table<'a>(path: &str, t: &(dyn SomeTable<'a> + 'a), r: &Refs, out: &mut Problems, budget: &mut usize) {
    let mut ctx = (None, None);
    for field in t.iter() { if *budget == 0 { return; } refs_field(&format!("{path}.{}", field.name), field.value, r, out, budget, &mut ctx); }
    // a VariationIndex table: (outer, inner) must name a delta set of the GDEF store
    if let (Some(o), Some(i)) = ctx { if path.ends_with("VariationIndex") && (o as usize >= r.ivs_counts.len() || i as usize >= r.ivs_counts[o as usize]) { out.push(("variation-index-out-of-range".into(), format!("{path}: ({o}, {i}) with store item counts {:?}", r.ivs_counts))); } }
}

pub fn layout_references(font: &Font, out: &mut Problems) -> usize {
    let n_glyphs = font.num_glyphs() as usize;
    let n_axes = font.axes().len();
    let (mut n_mark_sets, mut ivs_counts) = (0usize, vec![]);
    if let Ok(gdef) = font.f.gdef() {
        if let Some(Ok(ms)) = gdef.mark_glyph_sets_def() { n_mark_sets = ms.mark_glyph_set_count() as usize; }
        if let Some(Ok(ivs)) = gdef.item_var_store() { ivs_counts = ivs.item_variation_data().iter().map(|d| match d { Some(Ok(d)) => d.item_count() as usize, _ => 0 }).collect(); }
    }
    let mut budget = 3_000_000usize;
    if let Ok(t) = font.f.gsub() { let r = Refs { n_glyphs, n_axes, n_mark_sets, ivs_counts: ivs_counts.clone(), n_lookups: t.lookup_list().map(|l| l.lookup_count() as usize).unwrap_or(0), n_features: t.feature_list().map(|l| l.feature_count() as usize).unwrap_or(0) }; refs_table("GSUB", &t, &r, out, &mut budget); }
    if let Ok(t) = font.f.gpos() { let r = Refs { n_glyphs, n_axes, n_mark_sets, ivs_counts: ivs_counts.clone(), n_lookups: t.lookup_list().map(|l| l.lookup_count() as usize).unwrap_or(0), n_features: t.feature_list().map(|l| l.feature_count() as usize).unwrap_or(0) }; refs_table("GPOS", &t, &r, out, &mut budget); }
    if let Ok(t) = font.f.gdef() { let r = Refs { n_glyphs, n_axes, n_mark_sets, ivs_counts: ivs_counts.clone(), n_lookups: usize::MAX, n_features: usize::MAX }; refs_table("GDEF", &t, &r, out, &mut budget); }
    3_000_000 - budget
}

pub const REQUIRED: &[&[u8; 4]] = &[b"cmap", b"head", b"hhea", b"hmtx", b"maxp", b"name", b"OS/2", b"post", b"glyf", b"loca"];

/// returns (problems, number of nodes traversed)
pub fn check_font(data: &[u8]) -> (Problems, usize) {
    let mut out: Problems = sfnt::check_container(data);
    let font = match Font::new(data) { Ok(f) => f, Err(e) => { out.push(("sfnt-unparseable".into(), e)); return (out, 0); } };
    for t in REQUIRED { if !font.has(t) { out.push(("required-table-missing".into(), String::from_utf8_lossy(*t).to_string())); } }
    let nodes = traverse_all(&font, &mut out) + layout_references(&font, &mut out);
    if out.iter().any(|(s, _)| s == "required-table-missing") { return (out, nodes); }
    if let Ok(head) = font.f.head() { let u = head.units_per_em(); if !(16..=16384).contains(&u) { out.push(("head-units-per-em-out-of-range".into(), format!("{u}"))); } }
    let n = font.num_glyphs() as usize;
    if n == 0 { out.push(("no-glyphs".into(), String::new())); return (out, nodes); }
    // glyph counts
    match font.f.loca(None) { Ok(l) => if l.len() != n { out.push(("glyph-count-loca".into(), format!("maxp {n} loca {}", l.len()))); }, Err(e) => out.push(("loca-unreadable".into(), e.to_string())) }
    match font.glyph_names() { Ok(names) => {
        if names.len() != n { out.push(("glyph-count-post".into(), format!("maxp {n} post {}", names.len()))); }
        let mut seen = std::collections::BTreeSet::new();
        for nm in &names { if !seen.insert(nm) { out.push(("post-name-duplicate".into(), nm.clone())); } }
    } Err(e) => out.push(("post-names".into(), e)) }
    if let (Ok(hhea), Some(hm)) = (font.f.hhea(), font.f.table_data(Tag::new(b"hmtx"))) {
        let nh = hhea.number_of_h_metrics() as usize;
        if nh == 0 || nh > n { out.push(("hhea-number-of-hmetrics-out-of-range".into(), format!("{nh} of {n}"))); }
        else if hm.len() != 4 * nh + 2 * (n - nh) { out.push(("glyph-count-hmtx".into(), format!("hmtx {} bytes for {n} glyphs / {nh} long metrics", hm.len()))); }
    }
    if let (Ok(vhea), Some(vm)) = (font.f.vhea(), font.f.table_data(Tag::new(b"vmtx"))) {
        let nv = vhea.number_of_long_ver_metrics() as usize;
        if nv == 0 || nv > n { out.push(("vhea-number-of-vmetrics-out-of-range".into(), format!("{nv} of {n}"))); }
        else if vm.len() != 4 * nv + 2 * (n - nv) { out.push(("glyph-count-vmtx".into(), format!("vmtx {} bytes for {n} glyphs / {nv} long metrics", vm.len()))); }
    }
    let n_axes = font.axes().len();
    if let Ok(gvar) = font.f.gvar() {
        if gvar.glyph_count() as usize != n { out.push(("glyph-count-gvar".into(), format!("maxp {n} gvar {}", gvar.glyph_count()))); }
        if gvar.axis_count() as usize != n_axes { out.push(("axis-count-gvar".into(), format!("fvar {n_axes} gvar {}", gvar.axis_count()))); }
    }
    if font.has(b"fvar") {
        for t in [b"STAT"] { if !font.has(t) { out.push(("variable-font-without-stat".into(), String::from_utf8_lossy(t).to_string())); } }
        if let Ok(avar) = font.f.avar() { if avar.axis_count() as usize != n_axes { out.push(("axis-count-avar".into(), format!("fvar {n_axes} avar {}", avar.axis_count()))); } }
        let store_axes = |name: &str, r: Result<read_fonts::tables::variations::ItemVariationStore, read_fonts::ReadError>, out: &mut Problems| {
            if let Ok(ivs) = r { if let Ok(rl) = ivs.variation_region_list() { if rl.axis_count() as usize != n_axes { out.push((format!("axis-count-{name}"), format!("fvar {n_axes} store {}", rl.axis_count()))); }
                let nreg = rl.region_count() as usize;
                for (i, d) in ivs.item_variation_data().iter().enumerate() { if let Some(Ok(d)) = d { for ri in d.region_indexes() { if ri.get() as usize >= nreg { out.push((format!("region-index-out-of-range-{name}"), format!("data {i}: {} of {nreg}", ri.get()))); } } } }
            } }
        };
        if let Ok(h) = font.f.hvar() { store_axes("HVAR", h.item_variation_store(), &mut out);
            if let Some(Ok(m)) = h.advance_width_mapping() { if let Ok(ivs) = h.item_variation_store() { check_map(&m, &ivs, n, "HVAR", &mut out); } }
            else if let Ok(ivs) = h.item_variation_store() { // direct: inner index = gid in data 0
                if let Some(Ok(d)) = ivs.item_variation_data().get(0) { if (d.item_count() as usize) < n { out.push(("glyph-count-HVAR-direct".into(), format!("{} delta sets for {n} glyphs", d.item_count()))); } } } }
        if let Ok(v) = font.f.vvar() { store_axes("VVAR", v.item_variation_store(), &mut out); if let Some(Ok(m)) = v.advance_height_mapping() { if let Ok(ivs) = v.item_variation_store() { check_map(&m, &ivs, n, "VVAR", &mut out); } } }
        if let Ok(m) = font.f.mvar() { if let Some(ivs) = m.item_variation_store() { store_axes("MVAR", ivs, &mut out); } }
        if let Ok(g) = font.f.gdef() { if let Some(ivs) = g.item_var_store() { store_axes("GDEF", ivs, &mut out); } }
        // every name id used by fvar exists
        if let (Ok(fvar), Ok(name)) = (font.f.fvar(), font.f.name()) {
            let has = |id: u16| name.name_record().iter().any(|r| r.name_id().to_u16() == id);
            if let Ok(axes) = fvar.axes() { for a in axes { if !has(a.axis_name_id().to_u16()) { out.push(("fvar-axis-name-id-missing".into(), a.axis_name_id().to_string())); } } }
            if let Ok(insts) = fvar.instances() { for i in insts.iter().flatten() {
                if !has(i.subfamily_name_id.to_u16()) { out.push(("fvar-instance-name-id-missing".into(), i.subfamily_name_id.to_string())); }
                if let Some(ps) = i.post_script_name_id { if ps.to_u16() != 0xFFFF && !has(ps.to_u16()) { out.push(("fvar-instance-psname-id-missing".into(), ps.to_string())); } }
                if i.coordinates.len() != n_axes { out.push(("fvar-instance-coordinate-count".into(), format!("{}", i.coordinates.len()))); }
            } }
        }
    } else {
        for t in [b"gvar", b"HVAR", b"MVAR", b"avar"] { if font.has(t) { out.push(("variation-table-in-static-font".into(), String::from_utf8_lossy(t).to_string())); } }
    }
    // cmap targets
    match font.cmap() { Ok(m) => for (cp, g) in m { if g as usize >= n { out.push(("cmap-gid-out-of-range".into(), format!("U+{cp:04X} -> {g}"))); } }, Err(e) => out.push(("cmap-inconsistent".into(), e)) }
    // glyf: components in range, acyclic, within maxp
    let maxp = font.f.maxp().ok();
    let mut depth_cache: Vec<Option<usize>> = vec![None; n];
    fn depth(font: &Font, gid: usize, n: usize, cache: &mut Vec<Option<usize>>, stack: &mut Vec<usize>, out: &mut Problems) -> usize {
        if let Some(d) = cache[gid] { return d; }
        if stack.contains(&gid) { out.push(("component-cycle".into(), format!("{stack:?} -> {gid}"))); return 0; }
        stack.push(gid);
        let d = match font.glyph(gid as u16) {
            Ok(RawGlyph::Composite { comps, .. }) => {
                let mut m = 0;
                for c in comps { if c.gid as usize >= n { out.push(("component-gid-out-of-range".into(), format!("glyph {gid} -> {}", c.gid))); } else { m = m.max(depth(font, c.gid as usize, n, cache, stack, out)); } }
                m + 1
            }
            Ok(_) => 0,
            Err(e) => { out.push(("glyph-unreadable".into(), e)); 0 }
        };
        stack.pop();
        cache[gid] = Some(d);
        d
    }
    let mut maxdepth = 0;
    for g in 0..n { let d = depth(&font, g, n, &mut depth_cache, &mut vec![], &mut out); maxdepth = maxdepth.max(d); }
    if let Some(m) = &maxp { if let Some(md) = m.max_component_depth() { if maxdepth > md as usize { out.push(("component-depth-exceeds-maxp".into(), format!("{maxdepth} > {md}"))); } } }
    (out, nodes)
}

fn check_map(m: &read_fonts::tables::variations::DeltaSetIndexMap, ivs: &read_fonts::tables::variations::ItemVariationStore, n: usize, name: &str, out: &mut Problems) {
    let counts: Vec<usize> = ivs.item_variation_data().iter().map(|d| match d { Some(Ok(d)) => d.item_count() as usize, _ => 0 }).collect();
    for g in 0..n as u32 {
        match m.get(g) {
            Ok(idx) => { let o = idx.outer as usize; if o >= counts.len() || idx.inner as usize >= counts[o] { out.push((format!("delta-set-index-out-of-range-{name}"), format!("gid {g} -> ({}, {})", idx.outer, idx.inner))); break; } }
            Err(e) => { out.push((format!("delta-set-index-map-{name}"), format!("gid {g}: {e}"))); break; }
        }
    }
}
