//! C03 — Outlines at every master location reproduce that master's drawing.
//! C04 — Advances and global metrics at each master location equal the master's (shares fonts).
use crate::synth::build::{compile_path, BuildOpts, Scratch};
use crate::synth::model::*;
use crate::synth::ufo;
use crate::ot::outline::{hausdorff, match_contours, ot_round, tt_segments};
use crate::ot::{f2, Font, RawGlyph};
use crate::run::{CaseReport, Ctx, Part};
use serde_json::json;
use std::collections::BTreeMap;

pub struct Built { pub font: SynthFont, pub bytes: Vec<u8>, pub files: BTreeMap<String, String> }

pub fn describe(f: &SynthFont) -> serde_json::Value {
    json!({
        "axes": f.axes.iter().map(|a| json!({"tag": a.tag, "design": [a.d_min(), a.d_default, a.d_max()], "map": a.map})).collect::<Vec<_>>(),
        "sources": f.sources.iter().map(|s| json!({"norm": s.norm, "layer": s.layer})).collect::<Vec<_>>(),
        "glyphs": f.glyphs.iter().map(|g| json!({"name": g.name, "kind": format!("{:?}", g.kind), "export": g.export, "sources": g.sources.keys().collect::<Vec<_>>(),
            "components": g.sources.get(&0).map(|s| s.comps.iter().map(|c| json!([c.base, c.xf])).collect::<Vec<_>>()), "contours": g.sources.get(&0).map(|s| s.contours.len())})).collect::<Vec<_>>(),
        "glyph_order": f.glyph_order, "skip_export": f.skip_export,
    })
}

pub fn classify(rep: &mut CaseReport, f: &SynthFont) {
    rep.class(format!("axes={}", f.axes.len()));
    rep.class(format!("full-masters={}", f.full_sources().count().min(6)));
    if f.sources.iter().any(|s| s.layer.is_some()) { rep.class("has-layer-source"); }
    if f.sources.iter().any(|s| s.name.starts_with("plateau_")) { rep.class("one-ufo-serving-two-sources"); }
    let n_full = f.full_sources().count();
    if f.glyphs.iter().any(|g| g.sources.keys().filter(|k| f.sources[**k].layer.is_none()).count() < n_full) { rep.class("has-sparse-glyph"); }
    if f.glyphs.iter().any(|g| f.has_components(&g.name)) { rep.class("has-composite"); }
    if f.glyphs.iter().any(|g| f.max_depth(&g.name) >= 2) { rep.class("has-nested-composite"); }
    if f.glyphs.iter().any(|g| g.sources.get(&0).map(|s| !s.comps.is_empty() && !s.contours.is_empty()).unwrap_or(false)) { rep.class("has-mixed-glyph"); }
    if f.glyphs.iter().any(|g| g.kind == OutlineKind::Cubic) { rep.class("has-cubic"); }
    if f.glyphs.iter().any(|g| g.kind == OutlineKind::Quad) { rep.class("has-quadratic"); }
    if f.axes.iter().any(|a| a.map.is_some()) { rep.class("has-axis-map"); }
    if f.sources.iter().any(|s| s.norm.iter().filter(|v| **v != 0.0).count() >= 2) { rep.class("has-off-axis-master"); }
    if f.sources.iter().any(|s| s.norm.iter().any(|v| *v != 0.0 && v.abs() != 1.0)) { rep.class("has-intermediate-master"); }
    if !f.skip_export.is_empty() { rep.class("has-non-export"); }
}

/// write, compile; on a reported build error the case is recorded under `sig_prefix`
pub fn build(ctx: &Ctx, rep: &mut CaseReport, f: SynthFont, opts: &BuildOpts) -> Option<Built> {
    let files = ufo::render(&f);
    let scratch = Scratch::new(&ctx.work);
    let ds = ufo::write_tree(scratch.path(), &files).expect("write tree");
    match compile_path(&ds, opts) {
        Ok(bytes) => Some(Built { font: f, bytes, files }),
        Err(e) => {
            rep.fail(format!("valid-source-rejected:{}", crate::run::normalize_sig(e.text().split(['\'', '"', ':']).next().unwrap_or(""))), format!("fontc failed on a generated (valid) source: {}", e.text()));
            for (k, v) in &files { rep.artifacts.push((k.clone(), v.clone().into_bytes())); }
            None
        }
    }
}

pub fn attach_source(rep: &mut CaseReport, b: &Built) {
    if !rep.failures.is_empty() && rep.artifacts.is_empty() {
        for (k, v) in &b.files { rep.artifacts.push((k.clone(), v.clone().into_bytes())); }
    }
}

pub fn gid_map(font: &Font) -> Result<BTreeMap<String, u16>, String> {
    Ok(font.glyph_names()?.into_iter().enumerate().map(|(i, n)| (n, i as u16)).collect())
}

pub fn check_outlines(ctx: &Ctx, genome: &[u16]) -> CaseReport { check_outlines_route(ctx, genome, false, false) }
/// component-heavy designs (the profile of the component-option check): nested, transformed and non-export components
pub fn check_outlines_composites(ctx: &Ctx, genome: &[u16]) -> CaseReport { check_outlines_route(ctx, genome, false, true) }
/// the same property through the Glyphs front end: the model written as Glyphs 3 text (one layer per master,
/// intermediate layers with full or partial coordinates)
pub fn check_outlines_glyphs(ctx: &Ctx, genome: &[u16]) -> CaseReport { check_outlines_route(ctx, genome, true, false) }

fn check_outlines_route(ctx: &Ctx, genome: &[u16], glyphs_route: bool, heavy: bool) -> CaseReport {
    let mut rep = CaseReport::default();
    let mut f = SynthFont::decode(genome, &if glyphs_route { Profile { point_axis: false, vertical: false, maps: false, min_axes: 1, ..Profile::outlines() } } else if heavy { crate::props::c12::profile() } else { Profile { point_axis: true, ..Profile::outlines() } });
    let mut glyphs_text = None;
    if glyphs_route {
        let tail = &genome[genome.len().saturating_sub(12)..genome.len().saturating_sub(2)];
        let partial = crate::synth::glyphs::prepare(&mut f, &mut crate::genome::Gen::new(tail));
        if partial.is_some() { rep.class("intermediate-layer-with-partial-coordinates"); }
        glyphs_text = Some(crate::synth::glyphs::render(&f, partial));
    }
    rep.key = f.hash();
    classify(&mut rep, &f);
    rep.sample = Some(describe(&f));
    if ctx.dry { match &glyphs_text { Some(t) => rep.artifacts.push(("font.glyphs".into(), t.clone().into_bytes())), None => { for (k, v) in ufo::render(&f) { rep.artifacts.push((k, v.into_bytes())); } } } return rep; }
    let mut g = crate::genome::Gen::new(genome);
    let w0 = g.word(); // reuses the first word: options, not model choices
    let keep_direction = w0 % 5 == 0;
    let flatten = w0 % 7 == 3;
    let decompose = w0 % 11 == 5;
    let opts = BuildOpts { keep_direction, flatten, decompose, ..Default::default() };
    if keep_direction { rep.class("keep-direction"); }
    if flatten { rep.class("flatten-components"); }
    if decompose { rep.class("decompose-components"); }
    if f.upem == 4096 { rep.class("upem-4096"); }
    let b = match glyphs_text {
        None => { let Some(b) = build(ctx, &mut rep, f, &opts) else { return rep }; b }
        Some(text) => match crate::props::c20::compile_glyphs_text(&text, &opts) {
            Ok(bytes) => Built { font: f, bytes, files: [("font.glyphs".to_string(), text)].into_iter().collect() },
            Err(e) => { rep.fail(format!("valid-source-rejected:{}", crate::run::normalize_sig(e.text().split(['\'', '"', ':']).next().unwrap_or(""))), format!("fontc failed on a generated (valid) Glyphs source: {}", e.text())); rep.artifacts.push(("font.glyphs".into(), text.into_bytes())); return rep; }
        },
    };
    let f = &b.font;
    let font = match Font::new(&b.bytes) { Ok(x) => x, Err(e) => { rep.fail("output-unparseable", e); attach_source(&mut rep, &b); return rep; } };
    let gids = match gid_map(&font) { Ok(m) => m, Err(e) => { rep.fail("post-names-unreadable", e); attach_source(&mut rep, &b); return rep; } };
    let n_axes = f.var_axes().len();
    if font.axes().len() != n_axes { rep.fail("fvar-axis-count", format!("{} vs {}", font.axes().len(), n_axes)); }
    let mut any_nontrivial = false;
    for gl in &f.glyphs {
        if !gl.export { continue; }
        let Some(&gid) = gids.get(&gl.name) else { rep.fail("exported-glyph-missing", gl.name.clone()); continue; };
        let raw = match font.glyph(gid) { Ok(r) => r, Err(e) => { rep.fail("glyf-unreadable", e); continue; } };
        let is_simple_in_font = matches!(raw, RawGlyph::Simple { .. } | RawGlyph::Empty);
        let depth = f.max_depth(&gl.name);
        for (&si, _src) in &gl.sources {
            let coords: Vec<f64> = f.font_coords(&f.sources[si].norm);
            let is_default = si == 0;
            rep.evals += 1;
            let Some(expected) = f.resolved(&gl.name, si, &IDENT, 0) else { rep.class("skipped-component-without-source-here"); continue; };
            let (actual, scalar_sum) = match (font.resolved_outline(gid, Some(&coords), 0), font.gvar_deltas(gid, &coords, &raw)) {
                (Ok(a), Ok((_, s))) => (a, s), (Err(e), _) | (_, Err(e)) => { rep.fail("instantiation-failed", format!("{} at {:?}: {e}", gl.name, coords)); continue; } };
            // bound of the statement: 0.5 + 0.5 * sum of active region scalars; exact at the default
            let mut tol = if is_default { 0.0 } else { 0.5 + 0.5 * scalar_sum + 1e-6 };
            // composites kept as composites: base points are rounded before the 2x2 is applied, offsets are rounded
            if !is_simple_in_font { tol += depth as f64 * 3.0; }
            else if depth > 0 { tol += 0.5; } // decomposed: rounding happens after the transform of unrounded coordinates
            if !is_default && f.resolved(&gl.name, 0, &IDENT, 0).map(|d| format!("{d:?}") != format!("{expected:?}")).unwrap_or(false) { any_nontrivial = true; }
            let cubic = expected.iter().any(|c| c.iter().any(|p| p.typ == PtType::Curve));
            if cubic {
                let exp_segs: Vec<_> = expected.iter().flat_map(|c| contour_segments(c)).collect();
                let act_segs: Vec<_> = actual.iter().flat_map(|c| tt_segments(c)).collect();
                let d = hausdorff(&exp_segs, &act_segs);
                if std::env::var_os("VF_DEBUG").is_some() { eprintln!("d={d} glyph {} si {si}\n exp {:?}\n act {:?}\n actual pts {:?}", gl.name, exp_segs, act_segs, actual); }
                let ctol = f.upem as f64 / 1000.0 + tol + 1.5;
                if d > ctol { rep.fail(if is_default { "cubic-outline-differs-at-default" } else { "cubic-outline-differs-at-master" },
                    format!("glyph {} source {si} at {:?}: Hausdorff distance {d:.3} > {ctol:.3}", gl.name, coords)); }
                if expected.len() != actual.len() { rep.fail("contour-count-differs", format!("glyph {} source {si}: expected {} contours got {}", gl.name, expected.len(), actual.len())); }
            } else {
                let exp_pts: Vec<Vec<(f64, f64, bool)>> = expected.iter().map(|c| contour_points(c).into_iter().map(|p| (ot_round(p.0), ot_round(p.1), p.2)).collect()).collect();
                // an explicit on-curve that fontc rounded vs. the exact midpoint of two rounded off-curves: half a unit
                match match_contours(&exp_pts, &actual, 0.5) {
                    Err(e) => rep.fail(if is_default { "outline-structure-differs-at-default" } else { "outline-structure-differs-at-master" }, format!("glyph {} source {si} at {:?}: {e}", gl.name, coords)),
                    Ok(d) if d > tol + if depth > 0 { 0.5 } else { 0.0 } => rep.fail(if is_default { "outline-differs-at-default" } else { "outline-differs-at-master" },
                        format!("glyph {} source {si} at {:?}: max coordinate deviation {d:.3} > bound {tol:.3} (sum of scalars {scalar_sum:.3}); expected {:?} got {:?}", gl.name, coords, exp_pts, actual)),
                    Ok(_) => {}
                }
            }
            // component offsets (composite kept in the font): rounded master offsets
            if let RawGlyph::Composite { comps, .. } = &raw {
                let src = &gl.sources[&si];
                if comps.len() == src.comps.len() {
                    if let Ok((deltas, ssum)) = font.gvar_deltas(gid, &coords, &raw) {
                        for (k, (c, mc)) in comps.iter().zip(&src.comps).enumerate() {
                            let (ax, ay) = (c.dx + deltas[k].0, c.dy + deltas[k].1);
                            let (ex, ey) = (ot_round(mc.xf[4]), ot_round(mc.xf[5]));
                            let otol = if is_default { 0.0 } else { 0.5 * ssum + 1e-6 };
                            if gids.get(&mc.base) == Some(&c.gid) && ((ax - ex).abs() > otol || (ay - ey).abs() > otol) {
                                rep.fail(if is_default { "component-offset-differs-at-default" } else { "component-offset-differs-at-master" },
                                    format!("glyph {} component {k} ({}) source {si}: expected ({ex},{ey}) got ({ax},{ay})", gl.name, mc.base));
                            }
                        }
                    }
                }
            }
        }
    }
    rep.nontrivial = any_nontrivial;
    attach_source(&mut rep, &b);
    rep
}

// -------------------------------------------------------------------------------- C04
const MVAR_TAGS: &[(&str, &[u8; 4], &str)] = &[
    ("openTypeOS2TypoAscender", b"hasc", "os2.typoAsc"), ("openTypeOS2TypoDescender", b"hdsc", "os2.typoDesc"), ("openTypeOS2TypoLineGap", b"hlgp", "os2.typoGap"),
    ("openTypeOS2WinAscent", b"hcla", "os2.winAsc"), ("openTypeOS2WinDescent", b"hcld", "os2.winDesc"),
    ("openTypeHheaCaretSlopeRise", b"hcrs", "hhea.rise"), ("openTypeHheaCaretSlopeRun", b"hcrn", "hhea.run"), ("openTypeHheaCaretOffset", b"hcof", "hhea.off"),
    ("xHeight", b"xhgt", "os2.xh"), ("capHeight", b"cpht", "os2.cap"),
    ("openTypeOS2StrikeoutPosition", b"stro", "os2.strpos"), ("openTypeOS2StrikeoutSize", b"strs", "os2.strsize"),
    ("openTypeOS2SubscriptXOffset", b"sbxo", "os2.sbxo"), ("openTypeOS2SubscriptXSize", b"sbxs", "os2.sbxs"), ("openTypeOS2SubscriptYOffset", b"sbyo", "os2.sbyo"), ("openTypeOS2SubscriptYSize", b"sbys", "os2.sbys"),
    ("openTypeOS2SuperscriptXOffset", b"spxo", "os2.spxo"), ("openTypeOS2SuperscriptXSize", b"spxs", "os2.spxs"), ("openTypeOS2SuperscriptYOffset", b"spyo", "os2.spyo"), ("openTypeOS2SuperscriptYSize", b"spys", "os2.spys"),
    ("postscriptUnderlinePosition", b"undo", "post.undo"), ("postscriptUnderlineThickness", b"unds", "post.unds"),
];

fn table_value(font: &Font, which: &str) -> Option<f64> {
    use read_fonts::TableProvider;
    let os2 = font.f.os2().ok()?; let hhea = font.f.hhea().ok()?; let post = font.f.post().ok()?;
    Some(match which {
        "os2.typoAsc" => os2.s_typo_ascender() as f64, "os2.typoDesc" => os2.s_typo_descender() as f64, "os2.typoGap" => os2.s_typo_line_gap() as f64,
        "os2.winAsc" => os2.us_win_ascent() as f64, "os2.winDesc" => os2.us_win_descent() as f64,
        "hhea.rise" => hhea.caret_slope_rise() as f64, "hhea.run" => hhea.caret_slope_run() as f64, "hhea.off" => hhea.caret_offset() as f64,
        "os2.xh" => os2.sx_height()? as f64, "os2.cap" => os2.s_cap_height()? as f64,
        "os2.strpos" => os2.y_strikeout_position() as f64, "os2.strsize" => os2.y_strikeout_size() as f64,
        "os2.sbxo" => os2.y_subscript_x_offset() as f64, "os2.sbxs" => os2.y_subscript_x_size() as f64, "os2.sbyo" => os2.y_subscript_y_offset() as f64, "os2.sbys" => os2.y_subscript_y_size() as f64,
        "os2.spxo" => os2.y_superscript_x_offset() as f64, "os2.spxs" => os2.y_superscript_x_size() as f64, "os2.spyo" => os2.y_superscript_y_offset() as f64, "os2.spys" => os2.y_superscript_y_size() as f64,
        "post.undo" => post.underline_position().to_i16() as f64, "post.unds" => post.underline_thickness().to_i16() as f64,
        _ => return None,
    })
}

pub fn check_metrics(ctx: &Ctx, genome: &[u16]) -> CaseReport { check_metrics_route(ctx, genome, false) }
/// advances (hmtx + HVAR, gvar phantom points) through the Glyphs front end; the global-metric part needs UFO fontinfo keys and stays with the UFO route
pub fn check_metrics_glyphs(ctx: &Ctx, genome: &[u16]) -> CaseReport { check_metrics_route(ctx, genome, true) }

fn check_metrics_route(ctx: &Ctx, genome: &[u16], glyphs_route: bool) -> CaseReport {
    let mut rep = CaseReport::default();
    let mut f = SynthFont::decode(genome, &if glyphs_route { Profile { point_axis: false, vertical: false, maps: false, min_axes: 1, metrics_class_a: false, ..Profile::outlines() } } else { Profile { point_axis: true, ..Profile::outlines() } });
    let mut glyphs_text = None;
    if glyphs_route {
        let tail = &genome[genome.len().saturating_sub(12)..genome.len().saturating_sub(2)];
        let partial = crate::synth::glyphs::prepare(&mut f, &mut crate::genome::Gen::new(tail));
        glyphs_text = Some(crate::synth::glyphs::render(&f, partial));
    }
    rep.key = f.hash();
    classify(&mut rep, &f);
    rep.sample = Some(describe(&f));
    if ctx.dry { match &glyphs_text { Some(t) => rep.artifacts.push(("font.glyphs".into(), t.clone().into_bytes())), None => { for (k, v) in ufo::render(&f) { rep.artifacts.push((k, v.into_bytes())); } } } return rep; }
    let b = match glyphs_text {
        None => { let Some(b) = build(ctx, &mut rep, f, &BuildOpts::default()) else { return rep }; b }
        Some(text) => match crate::props::c20::compile_glyphs_text(&text, &BuildOpts::default()) {
            Ok(bytes) => Built { font: f, bytes, files: [("font.glyphs".to_string(), text)].into_iter().collect() },
            Err(e) => { rep.fail(format!("valid-source-rejected:{}", crate::run::normalize_sig(e.text().split(['\'', '"', ':']).next().unwrap_or(""))), format!("fontc failed on a generated (valid) Glyphs source: {}", e.text())); rep.artifacts.push(("font.glyphs".into(), text.into_bytes())); return rep; }
        },
    };
    let f = &b.font;
    let font = match Font::new(&b.bytes) { Ok(x) => x, Err(e) => { rep.fail("output-unparseable", e); attach_source(&mut rep, &b); return rep; } };
    let gids = match gid_map(&font) { Ok(m) => m, Err(e) => { rep.fail("post-names-unreadable", e); attach_source(&mut rep, &b); return rep; } };
    let vertical = f.sources[0].info.metrics.contains_key("openTypeVheaVertTypoAscender");
    if vertical { rep.class("vertical-metrics"); if !font.has(b"vmtx") { rep.fail("vertical-metrics-requested-but-no-vmtx", ""); } }
    if !f.glyphs.iter().any(|g| g.name == ".notdef") { rep.class("notdef-synthesised"); }
    let mut varies = false;
    for gl in &f.glyphs {
        if !gl.export { continue; }
        // the Glyphs front end zeroes the advance of glyphs its glyph data calls non-spacing marks (a documented
        // Glyphs convention, not something the source model states): those glyphs are left to the UFO route
        if glyphs_route && crate::synth::model::is_mark_name(&gl.name) { rep.class("skipped-nonspacing-mark-advance"); continue; }
        let Some(&gid) = gids.get(&gl.name) else { rep.fail("exported-glyph-missing", gl.name.clone()); continue; };
        let Ok(raw) = font.glyph(gid) else { continue };
        let Ok((adv0, _)) = font.advance(gid) else { rep.fail("hmtx-unreadable", gl.name.clone()); continue; };
        let a_default = gl.sources[&0].advance;
        if adv0 as f64 != ot_round(a_default) { rep.fail("default-advance-not-exact", format!("{}: hmtx {adv0} vs source {a_default}", gl.name)); }
        for (&si, src) in &gl.sources {
            // glyph-only (layer) sources carry an advance too
            let coords: Vec<f64> = f.font_coords(&f.sources[si].norm);
            rep.evals += 1;
            if src.advance != a_default { varies = true; }
            let want = ot_round(src.advance);
            let hv = match font.hvar_advance_delta(gid, &coords) { Ok(v) => v, Err(e) => { rep.fail("hvar-unreadable", e); continue; } };
            let phantom = font.gvar_deltas(gid, &coords, &raw).ok().map(|(d, _)| { let n = d.len(); (d[n - 3].0 - d[n - 4].0, d[n - 2].1 - d[n - 1].1) });
            if let Some(dv) = hv {
                let got = adv0 as f64 + dv;
                if (got - want).abs() > 1.0 + 1e-6 { rep.fail("advance-width-at-master", format!("{} source {si} at {:?}: hmtx+HVAR {got:.3} vs source {want}", gl.name, coords)); }
                if let Some((px, _)) = phantom { if (adv0 as f64 + px - got).abs() > 1.0 + 1e-6 { rep.fail("hvar-disagrees-with-gvar-phantom-points", format!("{} source {si}: HVAR {got:.3} vs gvar {:.3}", gl.name, adv0 as f64 + px)); } }
            } else if !f.axes.is_empty() && font.has(b"gvar") {
                if let Some((px, _)) = phantom { let got = adv0 as f64 + px; if (got - want).abs() > 1.0 + 1e-6 { rep.fail("advance-width-at-master-gvar", format!("{} source {si}: gvar phantom {got:.3} vs source {want}", gl.name)); } }
            }
            if vertical {
                if let (Some((vadv0, _)), Some(h)) = (font.v_advance(gid), src.height) {
                    let wanth = ot_round(h);
                    match font.vvar_advance_delta(gid, &coords) {
                        Ok(Some(dv)) => { let got = vadv0 as f64 + dv; if (got - wanth).abs() > 1.0 + 1e-6 { rep.fail("advance-height-at-master", format!("{} source {si}: vmtx+VVAR {got:.3} vs source {wanth}", gl.name)); } }
                        Ok(None) => { if src.height != gl.sources[&0].height && f.sources[si].layer.is_none() { rep.fail("heights-vary-but-no-vvar", gl.name.clone()); } }
                        Err(e) => rep.fail("vvar-unreadable", e),
                    }
                }
            }
        }
    }
    // HVAR and the gvar phantom points must agree at every master location, also where the glyph has no source of its own
    for gl in f.glyphs.iter().filter(|g| g.export) {
        let Some(&gid) = gids.get(&gl.name) else { continue };
        let Ok(raw) = font.glyph(gid) else { continue };
        for (si, s) in f.full_sources() {
            if gl.sources.contains_key(&si) { continue; }
            let coords = f.font_coords(&s.norm);
            rep.evals += 1;
            if let (Ok(Some(hv)), Ok((d, _))) = (font.hvar_advance_delta(gid, &coords), font.gvar_deltas(gid, &coords, &raw)) {
                let n = d.len(); let px = d[n - 3].0 - d[n - 4].0;
                if (hv - px).abs() > 1.0 + 1e-6 { rep.fail("hvar-disagrees-with-gvar-phantom-points", format!("{} at master {si} {:?} (glyph has no source there): HVAR delta {hv:.3} vs gvar phantom delta {px:.3}", gl.name, coords)); }
            }
        }
    }
    // global metrics through MVAR (class A: the metric is explicit in every master)
    if glyphs_route { rep.nontrivial = varies; attach_source(&mut rep, &b); return rep; }
    let class_a = f.sources[0].info.metrics.contains_key("openTypeOS2TypoAscender");
    if class_a { rep.class("metrics-explicit-in-all-masters"); }
    for (key, tag, field) in MVAR_TAGS {
        let val = |s: &Source| -> Option<f64> { match *key { "xHeight" => s.info.x_height, "capHeight" => s.info.cap_height, k => s.info.metrics.get(k).copied() } };
        let Some(d0) = val(&f.sources[0]) else { continue };
        if !class_a && *key != "xHeight" && *key != "capHeight" { continue; }
        let Some(t0) = table_value(&font, field) else { continue };
        // win descent is stored as a positive number from a positive source value; everything else is copied
        if t0 != ot_round(d0) { rep.fail("default-metric-not-exact", format!("{key}: table {t0} vs source {d0}")); continue; }
        for (si, s) in f.full_sources() {
            let Some(want) = val(s) else { continue };
            if want != d0 { varies = true; }
            let coords: Vec<f64> = f.font_coords(&s.norm);
            rep.evals += 1;
            match font.mvar_delta(tag, &coords) {
                Ok(dv) => { let got = t0 + dv.unwrap_or(0.0); if (got - ot_round(want)).abs() > 1.0 + 1e-6 { rep.fail("global-metric-at-master", format!("{key} ({}) source {si} at {:?}: table+MVAR {got:.3} vs source {want}", String::from_utf8_lossy(*tag), coords)); } }
                Err(e) => rep.fail("mvar-unreadable", e),
            }
        }
    }
    rep.nontrivial = varies;
    attach_source(&mut rep, &b);
    rep
}

pub fn parts_c03() -> Vec<Part> {
    vec![
        Part { name: "outlines", genome_len: 1400, cases_quick: 1000, cases_thorough: 12000, threads: 12, max_shrink_iters: 250, check: Box::new(check_outlines), remote: None },
        Part { name: "outlines-glyphs", genome_len: 1400, cases_quick: 500, cases_thorough: 6000, threads: 12, max_shrink_iters: 250, check: Box::new(check_outlines_glyphs), remote: None },
        Part { name: "outlines-composites", genome_len: 1400, cases_quick: 500, cases_thorough: 6000, threads: 12, max_shrink_iters: 250, check: Box::new(check_outlines_composites), remote: None },
    ]
}
pub fn parts_c04() -> Vec<Part> {
    vec![
        Part { name: "metrics", genome_len: 1400, cases_quick: 1000, cases_thorough: 12000, threads: 12, max_shrink_iters: 250, check: Box::new(check_metrics), remote: None },
        Part { name: "advances-glyphs", genome_len: 1400, cases_quick: 500, cases_thorough: 6000, threads: 12, max_shrink_iters: 250, check: Box::new(check_metrics_glyphs), remote: None },
    ]
}

pub const RULE_C03: &str = "two routes: designspace+UFO3, and (part outlines-glyphs) the same kind of model written as Glyphs 3 text with one layer per master and intermediate layers given by full or partial coordinates; part outlines-composites uses the component-heavy profile of the component-option check (most glyphs composite, nested / transformed / non-export components) on the UFO route. genome -> SynthFont (1-3 axes, default + axis extremes + up to 5 intermediate/corner/interior masters, optional glyph-only layer sources and sparse glyphs; line / quadratic (1 or 2 off-curves per segment) / cubic outlines with per-master jitter and scaling; nested, transformed, mixed and non-export components) written as designspace+UFO3 and compiled in-process; every exported glyph is instantiated at each of its own source locations with an independent gvar evaluator (tuple scalars + IUP) and compared with the model drawing. non-trivial = some glyph has a non-default source whose resolved drawing differs from the default; distinct = hash of the model";
pub const RULE_C04: &str = "same fonts as C03 (part advances-glyphs: the advance checks through the Glyphs 3 route); per glyph x source location: hmtx+HVAR (own ItemVariationStore evaluator) vs rounded source advance (<=1), vs gvar phantom points (<=1), vmtx+VVAR when vertical metrics are built; per MVAR-tagged metric x master: table value + MVAR delta vs rounded fontinfo value (<=1), exact at default. non-trivial = an advance or a metric differs between masters";
pub const ASSUMPTIONS: &[&str] = &["master locations and region peaks are dyadic so F2Dot14 quantisation is exact", "composites kept as composites are compared with 3 units per nesting level of slack (base points are rounded before the 2x2 is applied); decomposed glyphs and simple glyphs use the bound of the statement", "cubic sources are compared by sampled Hausdorff distance with upem/1000 (cu2qu tolerance) + 1.5 sampling slack", "glyphs whose components lack a source at the location are compared by component offsets only"];
